// Package simpool replaces sync.Pool based object pools with deterministic,
// registered free lists whose reuse policy is drawn from the run's PRNG and
// which are emptied between runs.
package simpool

import (
	"reflect"

	"github.com/basecomplextech/baselibrary/verifsim/simrt"
)

// Reuse policies.
const (
	LIFO = iota
	FIFO
	Random
	Never
	NumPolicies
)

// Policy is the reuse policy of the current run (set by the harness).
var Policy = LIFO

// Poison makes released heap blocks carry 0xA5 until they are handed out again.
var Poison = false

// Stats of the current run.
var Stats struct {
	Gets, Reuses, Puts, DoublePut int64
}

func init() {
	simrt.OnReset(func() {
		Policy = LIFO
		Poison = false
		Stats.Gets, Stats.Reuses, Stats.Puts, Stats.DoublePut = 0, 0, 0, 0
		clear(GetsByType)
	})
}

// GetsByType counts how many objects of each pooled type were handed out in the current run.
var GetsByType = map[string]int64{}

// Pool is a deterministic free list.
type Pool[T any] struct {
	newf  func() T
	free  []T
	isPtr bool
	name  string
}

// New returns a registered pool.
func New[T any](newf func() T) *Pool[T] {
	p := &Pool[T]{newf: newf}
	var zero T
	if t := reflect.TypeOf(zero); t != nil {
		p.name = t.String()
		if t.Kind() == reflect.Pointer {
			p.isPtr = true
		}
	}
	simrt.OnReset(func() {
		clear(p.free)
		p.free = p.free[:0]
	})
	return p
}

func (p *Pool[T]) take() (v T, ok bool) {
	Stats.Gets++
	if p.name != "" && simrt.Active() {
		GetsByType[p.name]++
	}
	n := len(p.free)
	if n == 0 || !simrt.Active() {
		return v, false
	}
	i := n - 1
	switch Policy {
	case FIFO:
		i = 0
	case Random:
		i = simrt.Rand(simrt.StreamPool).IntN(n)
	}
	v = p.free[i]
	copy(p.free[i:], p.free[i+1:])
	var zero T
	p.free[n-1] = zero
	p.free = p.free[:n-1]
	Stats.Reuses++
	return v, true
}

// Get returns a pooled value if any (no constructor call).
func (p *Pool[T]) Get() (T, bool) {
	v, ok := p.take()
	if ok {
		return v, true
	}
	if p.newf != nil {
		return p.newf(), true
	}
	return v, false
}

// GetNew returns a pooled value or a new one; panics without constructor.
func (p *Pool[T]) GetNew() T {
	v, ok := p.take()
	if ok {
		return v
	}
	if p.newf == nil {
		panic("no pool new function")
	}
	return p.newf()
}

// Put releases a value.
func (p *Pool[T]) Put(v T) {
	Stats.Puts++
	if !simrt.Active() || Policy == Never {
		return
	}
	if p.isPtr {
		pv := reflect.ValueOf(v).Pointer()
		for _, f := range p.free {
			if reflect.ValueOf(f).Pointer() == pv {
				Stats.DoublePut++
				simrt.Report("pool-double-release", "object %T %#x released to its pool twice (task %s)", v, pv, simrt.CurrentTask())
				return
			}
		}
	}
	p.free = append(p.free, v)
}
