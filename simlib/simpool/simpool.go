// Package simpool replaces sync.Pool based object pools with deterministic,
// registered free lists whose reuse policy is drawn from the run's PRNG and
// which are emptied between runs.
package simpool

import (
	"reflect"
	"unsafe"

	"github.com/basecomplextech/baselibrary/verifsim/simrt"
)

// Reuse policies.
const (
	LIFO = iota
	FIFO
	Random
	Never
	NumPolicies
)

// Policy is the reuse policy of the current run (set by the harness).
var Policy = LIFO

// Poison makes released heap blocks carry 0xA5 until they are handed out again.
var Poison = false

// Stats of the current run.
var Stats struct {
	Gets, Reuses, Puts, DoublePut int64
}

func init() {
	simrt.OnReset(func() {
		Policy = LIFO
		Poison = false
		Stats.Gets, Stats.Reuses, Stats.Puts, Stats.DoublePut = 0, 0, 0, 0
		clear(GetsByType)
	})
}

// GetsByType counts how many objects of each pooled type were handed out in the current run.
var GetsByType = map[string]int64{}

// core is the non-generic free list: generic code is instantiated (and race-instrumented)
// in the importing packages, so the generic wrapper below touches no shared state itself.
type core struct {
	free  []any
	isPtr bool
	name  string
	sync  byte // address used to model sync.Pool's Put -> Get happens-before edge for the race detector
}

func newCore(t reflect.Type) *core {
	c := &core{}
	if t != nil {
		c.name = t.String()
		c.isPtr = t.Kind() == reflect.Pointer
	}
	simrt.OnReset(func() {
		clear(c.free)
		c.free = c.free[:0]
	})
	return c
}

func (p *core) take() (v any, ok bool) {
	Stats.Gets++
	if p.name != "" && simrt.Active() {
		GetsByType[p.name]++
	}
	n := len(p.free)
	if n == 0 || !simrt.Active() {
		return nil, false
	}
	i := n - 1
	switch Policy {
	case FIFO:
		i = 0
	case Random:
		i = simrt.Rand(simrt.StreamPool).IntN(n)
	}
	simrt.RaceAcquire(unsafe.Pointer(&p.sync))
	v = p.free[i]
	copy(p.free[i:], p.free[i+1:])
	p.free[n-1] = nil
	p.free = p.free[:n-1]
	Stats.Reuses++
	return v, true
}

func (p *core) put(v any) {
	Stats.Puts++
	if !simrt.Active() || Policy == Never {
		return
	}
	if p.isPtr {
		pv := reflect.ValueOf(v).Pointer()
		for _, f := range p.free {
			if reflect.ValueOf(f).Pointer() == pv {
				Stats.DoublePut++
				simrt.Report("pool-double-release", "object %T %#x released to its pool twice (task %s)", v, pv, simrt.CurrentTask())
				return
			}
		}
	}
	simrt.RaceRelease(unsafe.Pointer(&p.sync))
	p.free = append(p.free, v)
	// a released object may be taken by another task at once: a scheduling point right behind the release,
	// so that whatever the releasing task still does to the object happens under its new owner's hands
	simrt.Yield(sitePut)
}

const sitePut = 99001

func init() { simrt.RegisterSites(sitePut, []string{"simpool.Put"}) }

// Pool is a deterministic free list.
type Pool[T any] struct {
	newf func() T
	c    *core
}

// New returns a registered pool.
func New[T any](newf func() T) *Pool[T] {
	var zero T
	return &Pool[T]{newf: newf, c: newCore(reflect.TypeOf(zero))}
}

// Get returns a pooled value if any, else a new one when a constructor exists.
func (p *Pool[T]) Get() (T, bool) {
	if v, ok := p.c.take(); ok {
		return v.(T), true
	}
	if p.newf != nil {
		return p.newf(), true
	}
	var zero T
	return zero, false
}

// GetNew returns a pooled value or a new one; panics without constructor.
func (p *Pool[T]) GetNew() T {
	if v, ok := p.c.take(); ok {
		return v.(T)
	}
	if p.newf == nil {
		panic("no pool new function")
	}
	return p.newf()
}

// Put releases a value.
func (p *Pool[T]) Put(v T) { p.c.put(v) }
