module github.com/basecomplextech/baselibrary/verifsim

go 1.24
