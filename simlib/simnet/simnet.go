// Package simnet is the simulated TCP of the /verif simulator: in-memory,
// reliable, ordered byte streams with seeded segmentation, latency, bounded
// socket buffers and injected faults. It is driven entirely by simrt (no real
// goroutines, sockets or timers of its own).
package simnet

import (
	"context"
	"errors"
	"fmt"
	"io"
	"net"
	"os"
	"syscall"
	"time"
	"unsafe"

	"github.com/basecomplextech/baselibrary/verifsim/simrt"
)

// Params are the per-run network knobs.
type Params struct {
	LatencyMin, LatencyMax time.Duration // one-way delay per written segment
	SegMax                 int           // a Write is cut into segments of at most this many bytes (0 = whole)
	ReadMax                int           // a Read returns at most this many bytes (0 = no limit)
	ShortRead              float64       // probability that a Read returns fewer bytes than available
	BufCap                 int           // bytes a direction can hold undelivered+unread before Write blocks (0 = 1 MiB)
	DialLatencyMax         time.Duration
}

// FaultKind enumerates injected transport faults.
type FaultKind int

const (
	FaultRST       FaultKind = iota + 1 // both ends: reads and writes fail, in-flight data dropped
	FaultFIN                            // both ends read EOF after draining what was already written; writes fail
	FaultBlackhole                      // delivery stops in this direction; RST after Keepalive
	FaultStall                          // delivery paused for Duration
)

func (k FaultKind) String() string {
	switch k {
	case FaultRST:
		return "rst"
	case FaultFIN:
		return "fin"
	case FaultBlackhole:
		return "blackhole"
	case FaultStall:
		return "stall"
	}
	return "?"
}

// Fault is a planned fault on connection number Conn (in dial order), fired
// when AtByte bytes have been written in direction Dir.
type Fault struct {
	Conn     int           `json:"conn"`
	Dir      int           `json:"dir"` // 0 = client->server, 1 = server->client
	AtByte   int64         `json:"at_byte"`
	Kind     FaultKind     `json:"kind"`
	Duration time.Duration `json:"duration,omitempty"` // stall length / blackhole keep-alive
	fired    bool
}

// Stats counts what actually happened on the network.
type Stats struct {
	Dials, DialRefused, DialTimeout, DialCancelled int
	Accepts                                        int
	Conns                                          int
	BytesC2S, BytesS2C                             int64
	Writes, Reads, ShortReads, Segments            int64
	WriteBlocked                                   int64
	FaultsFired                                    map[string]int
	MaxOpenClient                                  map[string]int // per dial address: max simultaneously open client endpoints
}

// Net is the per-run network state.
type Net struct {
	P         Params
	lastDialCut bool
	LastIO    time.Duration // simulated instant of the last byte written or read
	listeners map[string]*Listener
	conns     []*Pair
	faults    []*Fault
	dialFault map[string]*dialFault
	Stats     Stats
	openCli   map[string]int
	Tap       func(conn int, dir int, data []byte) // observes every written segment (wire monitor)
	TapRead   func(conn int, dir int, data []byte) // observes bytes as the receiving endpoint reads them
	OnConn    func(p *Pair)
	OnDial    func(start, end time.Duration, ok, cut bool) // every dial attempt with its simulated start/end time; cut: connected, to be reset inside its handshake
}

type dialFault struct {
	refuse  int // refuse next n dials (-1 = until cleared)
	timeout int // black-hole next n dials
	cut     int // the next n dials connect, and the connection is reset with the first byte the client writes
}

var cur *Net

// ioSync models the happens-before edge the Go runtime draws from every socket write to
// every later socket read (internal/poll does the same with its own ioSync) for the race detector.
var ioSync byte

func init() {
	simrt.OnReset(func() { cur = nil })
}

// Start installs a fresh network for the current run. Must be called from a task.
func Start(p Params) *Net {
	if p.BufCap == 0 {
		p.BufCap = 1 << 20
	}
	n := &Net{P: p, listeners: map[string]*Listener{}, dialFault: map[string]*dialFault{}, openCli: map[string]int{}}
	n.Stats.FaultsFired = map[string]int{}
	n.Stats.MaxOpenClient = map[string]int{}
	cur = n
	return n
}

// Cur returns the current network.
func Cur() *Net { return cur }

// AddFault plans a fault.
func (n *Net) AddFault(f Fault) { n.faults = append(n.faults, &f) }

// RefuseDials makes the next k dials to addr fail with ECONNREFUSED (k<0: until cleared).
func (n *Net) RefuseDials(addr string, k int) { n.df(addr).refuse = k }

// CutHandshakes lets the next k dials to addr connect and resets each of those connections with the
// first byte its client writes: a peer (or a middlebox) that accepts TCP and then fails the handshake.
func (n *Net) CutHandshakes(addr string, k int) { n.df(addr).cut = k }

// TimeoutDials black-holes the next k dials to addr (they end at the dialer's timeout).
func (n *Net) TimeoutDials(addr string, k int) { n.df(addr).timeout = k }

func (n *Net) df(addr string) *dialFault {
	d := n.dialFault[addr]
	if d == nil {
		d = &dialFault{}
		n.dialFault[addr] = d
	}
	return d
}

func (n *Net) fired(kind string) { n.Stats.FaultsFired[kind]++ }

// Dump describes every connection (for deadlock reports).
func (n *Net) Dump() []string {
	var out []string
	for _, p := range n.conns {
		out = append(out, fmt.Sprintf("conn%d: C sent=%d recv=%d pending=%d closed=%v rst=%v eof=%v | S sent=%d recv=%d pending=%d closed=%v rst=%v eof=%v",
			p.ID, p.C.Sent, p.C.Received, p.C.pending, p.C.closed, p.C.rst, p.C.eof, p.S.Sent, p.S.Received, p.S.pending, p.S.closed, p.S.rst, p.S.eof))
	}
	return out
}

// InFlight reports whether any written byte has not yet become readable (future arrival).
func (n *Net) InFlight() bool {
	now := time.Now()
	for _, p := range n.conns {
		for _, c := range []*Conn{p.C, p.S} {
			if len(c.segs) > 0 && c.segs[len(c.segs)-1].at.After(now) {
				return true
			}
		}
	}
	return false
}

// Pairs returns all connections made so far, in dial order.
func (n *Net) Pairs() []*Pair { return n.conns }

// OpenClient returns the number of currently open client endpoints dialled to addr.
func (n *Net) OpenClient(addr string) int { return n.openCli[addr] }

// ---- errors ----

type timeoutError struct{}

func (timeoutError) Error() string   { return "i/o timeout" }
func (timeoutError) Timeout() bool   { return true }
func (timeoutError) Temporary() bool { return true }

func opErr(op string, err error) error {
	return &net.OpError{Op: op, Net: "tcp", Err: err}
}

var (
	errReset   = os.NewSyscallError("read", syscall.ECONNRESET)
	errPipe    = os.NewSyscallError("write", syscall.EPIPE)
	errRefused = os.NewSyscallError("connect", syscall.ECONNREFUSED)
)

// ---- addresses ----

type addr string

func (a addr) Network() string { return "tcp" }
func (a addr) String() string  { return string(a) }

// ---- listener ----

// Listener is a simulated listening socket.
type Listener struct {
	n       *Net
	addr    string
	backlog []*Conn
	closed  bool
	conns   []*Conn // every server endpoint ever accepted or queued
}

// Listen replaces net.Listen in instrumented code.
func Listen(network, address string) (net.Listener, error) {
	n := cur
	if n == nil {
		return nil, errors.New("simnet: no network")
	}
	if l, ok := n.listeners[address]; ok && !l.closed {
		return nil, opErr("listen", os.NewSyscallError("bind", syscall.EADDRINUSE))
	}
	l := &Listener{n: n, addr: address}
	n.listeners[address] = l
	simrt.Logf("net listen %s", address)
	return l, nil
}

func (l *Listener) Accept() (net.Conn, error) {
	for {
		if l.closed {
			return nil, opErr("accept", net.ErrClosed)
		}
		if len(l.backlog) > 0 {
			c := l.backlog[0]
			l.backlog = l.backlog[1:]
			l.n.Stats.Accepts++
			simrt.Logf("net accept conn=%d", c.pair.ID)
			return c, nil
		}
		simrt.WaitCond("simnet.Accept", func() bool { return l.closed || len(l.backlog) > 0 })
	}
}

func (l *Listener) Close() error {
	if l.closed {
		return opErr("close", net.ErrClosed)
	}
	l.closed = true
	simrt.Logf("net listener closed %s", l.addr)
	// queued but never accepted connections are reset, as the kernel would
	for _, c := range l.backlog {
		c.pair.reset("listener-closed")
	}
	l.backlog = nil
	return nil
}

func (l *Listener) Addr() net.Addr { return addr(l.addr) }

// Conns returns every server-side endpoint created for this listener.
func (l *Listener) Conns() []*Conn { return l.conns }

// ListenerAt returns the current listener for an address (may be closed) or nil.
func (n *Net) ListenerAt(address string) *Listener { return n.listeners[address] }

// ---- dial ----

// DialContext replaces (*net.Dialer).DialContext in instrumented code.
func DialContext(d *net.Dialer, ctx context.Context, network, address string) (net.Conn, error) {
	n := cur
	if n == nil {
		return nil, errors.New("simnet: no network")
	}
	start := simrt.Now()
	n.lastDialCut = false
	c, err := dialContext(n, d, ctx, network, address)
	if n.OnDial != nil {
		// a connection that is going to be cut inside its handshake counts as a failed attempt
		n.OnDial(start, simrt.Now(), err == nil && !n.lastDialCut, err == nil && n.lastDialCut)
	}
	return c, err
}

func dialContext(n *Net, d *net.Dialer, ctx context.Context, network, address string) (net.Conn, error) {
	n.Stats.Dials++
	simrt.Logf("net dial %s", address)
	done := ctx.Done()

	if df := n.dialFault[address]; df != nil && df.timeout != 0 {
		if df.timeout > 0 {
			df.timeout--
		}
		n.fired("dial-timeout")
		n.Stats.DialTimeout++
		to := d.Timeout
		if to <= 0 {
			to = 2 * time.Minute
		}
		switch simrt.Select(0, done, time.After(to)) {
		case 0:
			n.Stats.DialCancelled++
			return nil, opErr("dial", ctx.Err())
		}
		simrt.Logf("net dial timeout %s", address)
		return nil, opErr("dial", timeoutError{})
	}

	lat := n.latency(n.P.DialLatencyMax)
	if lat > 0 {
		if d.Timeout > 0 && lat > d.Timeout {
			lat = d.Timeout
		}
		if simrt.Select(0, done, time.After(lat)) == 0 {
			n.Stats.DialCancelled++
			return nil, opErr("dial", ctx.Err())
		}
	} else if done != nil {
		select {
		case <-done:
			n.Stats.DialCancelled++
			return nil, opErr("dial", ctx.Err())
		default:
		}
	}

	if df := n.dialFault[address]; df != nil && df.refuse != 0 {
		if df.refuse > 0 {
			df.refuse--
		}
		n.fired("dial-refused")
		n.Stats.DialRefused++
		simrt.Logf("net dial refused(fault) %s", address)
		return nil, opErr("dial", errRefused)
	}
	l := n.listeners[address]
	if l == nil || l.closed {
		n.Stats.DialRefused++
		simrt.Logf("net dial refused %s", address)
		return nil, opErr("dial", errRefused)
	}

	p := &Pair{ID: len(n.conns), n: n, Addr: address}
	p.C = &Conn{pair: p, client: true}
	p.S = &Conn{pair: p, client: false}
	p.C.peer, p.S.peer = p.S, p.C
	n.conns = append(n.conns, p)
	n.Stats.Conns++
	n.openCli[address]++
	if n.openCli[address] > n.Stats.MaxOpenClient[address] {
		n.Stats.MaxOpenClient[address] = n.openCli[address]
	}
	l.backlog = append(l.backlog, p.S)
	l.conns = append(l.conns, p.S)
	simrt.Logf("net connected conn=%d %s", p.ID, address)
	if df := n.dialFault[address]; df != nil && df.cut > 0 {
		df.cut--
		n.fired("handshake-cut")
		n.lastDialCut = true
		n.faults = append(n.faults, &Fault{Conn: p.ID, Dir: 0, AtByte: 1, Kind: FaultRST})
	}
	if n.OnConn != nil {
		n.OnConn(p)
	}
	return p.C, nil
}

func (n *Net) latency(max time.Duration) time.Duration {
	if max <= 0 {
		return 0
	}
	return time.Duration(simrt.Rand(simrt.StreamNet).IntN(int(max/time.Microsecond)+1)) * time.Microsecond
}

// ---- connection ----

// Pair is one simulated TCP connection (both endpoints).
type Pair struct {
	ID      int
	n       *Net
	Addr    string
	C, S    *Conn
	IsReset bool
	Why     string
	Tag     string // set by the harness (e.g. "raw" for scripted peers)

	accounted bool
}

type segment struct {
	data []byte
	at   time.Time
}

// Conn is one endpoint of a Pair.
type Conn struct {
	pair   *Pair
	peer   *Conn
	client bool

	segs     []segment // data written by the peer, not yet read here
	pending  int       // bytes in segs
	eof      bool      // peer will send nothing more (FIN): EOF once drained
	rst      bool      // connection reset
	closed   bool      // local Close
	lastAt   time.Time
	hole     bool      // incoming direction is black-holed: data is accepted and dropped
	stallTo  time.Time // incoming delivery paused until then
	wbroken  bool      // writes fail (FIN fault)
	Sent     int64     // bytes written by this endpoint
	Received int64     // bytes read by this endpoint
}

// Pair returns the connection this endpoint belongs to.
func (c *Conn) Pair() *Pair { return c.pair }

// IsClient reports whether this is the dialling side.
func (c *Conn) IsClient() bool { return c.client }

// Dir is 0 for client->server data written by this endpoint, 1 otherwise.
func (c *Conn) dir() int {
	if c.client {
		return 0
	}
	return 1
}

func (c *Conn) String() string {
	side := "S"
	if c.client {
		side = "C"
	}
	return fmt.Sprintf("conn%d%s", c.pair.ID, side)
}

func (c *Conn) Read(b []byte) (int, error) {
	n := c.pair.n
	for {
		if c.closed {
			return 0, opErr("read", net.ErrClosed)
		}
		if c.rst {
			return 0, opErr("read", errReset)
		}
		if len(b) == 0 {
			return 0, nil
		}
		now := time.Now()
		if len(c.segs) > 0 && !c.segs[0].at.After(now) {
			// bytes available now
			limit := len(b)
			if n.P.ReadMax > 0 && limit > n.P.ReadMax {
				limit = n.P.ReadMax
			}
			avail := 0
			for _, s := range c.segs {
				if s.at.After(now) || avail >= limit {
					break
				}
				avail += len(s.data)
			}
			want := limit
			if want > avail {
				want = avail
			}
			if want > 1 && n.P.ShortRead > 0 && simrt.Rand(simrt.StreamNet).Bool(n.P.ShortRead) {
				want = 1 + simrt.Rand(simrt.StreamNet).IntN(want)
				n.Stats.ShortReads++
			}
			got := 0
			for got < want {
				s := &c.segs[0]
				k := copy(b[got:want], s.data)
				got += k
				if k == len(s.data) {
					c.segs[0].data = nil
					c.segs = c.segs[1:]
				} else {
					s.data = s.data[k:]
				}
			}
			c.pending -= got
			c.Received += int64(got)
			simrt.Progress()
			n.LastIO = simrt.Now()
			simrt.RaceAcquire(unsafe.Pointer(&ioSync))
			if n.TapRead != nil {
				n.TapRead(c.pair.ID, 1-c.dir(), b[:got])
			}
			n.Stats.Reads++
			simrt.Tracef("net read %s %d bytes (total %d)", c, got, c.Received)
			return got, nil
		}
		if len(c.segs) == 0 && c.eof {
			return 0, io.EOF
		}
		pred := func() bool {
			return c.closed || c.rst || (len(c.segs) == 0 && c.eof) ||
				(len(c.segs) > 0 && !c.segs[0].at.After(time.Now()))
		}
		if len(c.segs) > 0 {
			simrt.WaitCondUntil("simnet.Read", pred, c.segs[0].at)
		} else {
			simrt.WaitCond("simnet.Read", pred)
		}
	}
}

func (c *Conn) Write(b []byte) (int, error) {
	n := c.pair.n
	total := 0
	n.Stats.Writes++
	for {
		if c.closed {
			return total, opErr("write", net.ErrClosed)
		}
		if c.rst {
			return total, opErr("write", errReset)
		}
		if c.wbroken || c.peer.closed {
			return total, opErr("write", errPipe)
		}
		if len(b) == 0 {
			return total, nil
		}
		p := c.peer
		space := n.P.BufCap - p.pending
		if space <= 0 {
			n.Stats.WriteBlocked++
			simrt.WaitCond("simnet.Write", func() bool {
				return c.closed || c.rst || c.wbroken || p.closed || n.P.BufCap-p.pending > 0
			})
			continue
		}
		chunk := len(b)
		if chunk > space {
			chunk = space
		}
		if n.P.SegMax > 0 && chunk > n.P.SegMax {
			chunk = 1 + simrt.Rand(simrt.StreamNet).IntN(n.P.SegMax)
			if chunk > space {
				chunk = space
			}
		}
		// planned fault inside this chunk? (the earliest one wins)
		var fire *Fault
		for _, f := range n.faults {
			if f.fired || f.Conn != c.pair.ID || f.Dir != c.dir() {
				continue
			}
			if f.AtByte < c.Sent+int64(chunk) || (fire == nil && f.AtByte <= c.Sent) {
				k := f.AtByte - c.Sent
				if k < 0 {
					k = 0
				}
				chunk = int(k)
				fire = f
			}
		}
		if chunk > 0 {
			c.deliver(b[:chunk])
			b = b[chunk:]
			total += chunk
		}
		if fire != nil {
			fire.fired = true
			c.applyFault(fire)
		}
	}
}

func (c *Conn) deliver(data []byte) {
	simrt.Progress()
	simrt.RaceRelease(unsafe.Pointer(&ioSync))
	n := c.pair.n
	n.LastIO = simrt.Now()
	p := c.peer
	c.Sent += int64(len(data))
	if c.client {
		n.Stats.BytesC2S += int64(len(data))
	} else {
		n.Stats.BytesS2C += int64(len(data))
	}
	n.Stats.Segments++
	simrt.Tracef("net write %s %d bytes (total %d)", c, len(data), c.Sent)
	if n.Tap != nil {
		n.Tap(c.pair.ID, c.dir(), data)
	}
	if p.hole {
		return // swallowed
	}
	at := time.Now().Add(n.latencyRange())
	if at.Before(p.lastAt) {
		at = p.lastAt
	}
	if at.Before(p.stallTo) {
		at = p.stallTo
	}
	p.lastAt = at
	if k := len(p.segs); k > 0 && p.segs[k-1].at.Equal(at) && cap(p.segs[k-1].data) > 0 {
		// same arrival instant: one segment (keeps the list short for byte-sized writes)
		p.segs[k-1].data = append(p.segs[k-1].data, data...)
		p.pending += len(data)
		return
	}
	cp := make([]byte, len(data), len(data)+64)
	copy(cp, data)
	p.segs = append(p.segs, segment{cp, at})
	p.pending += len(cp)
	if at.After(time.Now()) {
		simrt.NotifyAt(at)
	}
}

func (n *Net) latencyRange() time.Duration {
	if n.P.LatencyMax <= 0 {
		return 0
	}
	d := n.P.LatencyMax - n.P.LatencyMin
	return n.P.LatencyMin + n.latency(d)
}

func (c *Conn) applyFault(f *Fault) {
	n := c.pair.n
	n.fired(f.Kind.String())
	simrt.Logf("net fault %s conn=%d dir=%d at=%d", f.Kind, f.Conn, f.Dir, f.AtByte)
	switch f.Kind {
	case FaultRST:
		c.pair.reset("fault-rst")
	case FaultFIN:
		c.pair.fin("fault-fin")
	case FaultBlackhole:
		c.peer.hole = true
		d := f.Duration
		if d <= 0 {
			d = 15 * time.Second
		}
		pr := c.pair
		simrt.Go("net-keepalive", func() {
			simrt.Sleep(d)
			pr.reset("keepalive")
		})
	case FaultStall:
		d := f.Duration
		if d <= 0 {
			d = time.Second
		}
		c.peer.stallTo = time.Now().Add(d)
	}
}

// Reset resets the connection (RST): both ends fail at once, in-flight data is lost.
func (p *Pair) Reset(why string) { p.n.fired("rst:" + why); p.reset(why) }

func (p *Pair) reset(why string) {
	if p.IsReset {
		return
	}
	p.IsReset = true
	p.Why = why
	simrt.Logf("net reset conn=%d (%s)", p.ID, why)
	for _, c := range []*Conn{p.C, p.S} {
		c.rst = true
		c.segs = nil
		c.pending = 0
	}
	p.closeAccounting()
}

// Fin closes the connection gracefully from the middle: both ends read EOF
// after draining, writes fail.
func (p *Pair) Fin(why string) { p.n.fired("fin:" + why); p.fin(why) }

func (p *Pair) fin(why string) {
	simrt.Logf("net fin conn=%d (%s)", p.ID, why)
	for _, c := range []*Conn{p.C, p.S} {
		c.eof = true
		c.wbroken = true
	}
}

// Stall pauses delivery in direction dir (0 = client->server) for d: what is written piles up in
// the socket buffer, and once that is full the writer blocks (a peer that has stopped reading).
func (p *Pair) Stall(dir int, d time.Duration) {
	p.n.fired("stall")
	recv := p.S
	if dir == 1 {
		recv = p.C
	}
	recv.stallTo = time.Now().Add(d)
	simrt.NotifyAt(recv.stallTo)
	simrt.Logf("net stall conn=%d dir=%d for %v", p.ID, dir, d)
}

// Blackhole stops delivery in direction dir (data is accepted and swallowed) and resets the
// connection after keepalive, as a dead path detected by TCP keep-alive would.
func (p *Pair) Blackhole(dir int, keepalive time.Duration) {
	p.n.fired("blackhole")
	recv := p.S
	if dir == 1 {
		recv = p.C
	}
	recv.hole = true
	simrt.Logf("net blackhole conn=%d dir=%d keepalive=%v", p.ID, dir, keepalive)
	simrt.Go("net-keepalive", func() {
		simrt.Sleep(keepalive)
		p.reset("keepalive")
	})
}

// Stalled reports whether delivery is paused in either direction or black-holed.
func (p *Pair) Stalled() bool {
	now := time.Now()
	return !p.IsReset && (p.C.stallTo.After(now) || p.S.stallTo.After(now) || p.C.hole || p.S.hole)
}

// HalfClose ends direction dir only: its receiver reads EOF after draining, its sender's writes
// fail; the opposite direction is untouched.
func (p *Pair) HalfClose(dir int) {
	p.n.fired("half-close")
	recv, snd := p.S, p.C
	if dir == 1 {
		recv, snd = p.C, p.S
	}
	recv.eof = true
	snd.wbroken = true
	simrt.Logf("net half-close conn=%d dir=%d", p.ID, dir)
}

func (p *Pair) closeAccounting() {
	if !p.C.closed && !p.accounted {
		p.accounted = true
		p.n.openCli[p.Addr]--
	}
}

func (c *Conn) Close() error {
	if c.closed {
		return opErr("close", net.ErrClosed)
	}
	c.closed = true
	simrt.Logf("net close %s", c)
	c.segs = nil
	c.pending = 0
	// the peer reads EOF after draining what we sent
	c.peer.eof = true
	if c.client && !c.pair.accounted {
		c.pair.accounted = true
		c.pair.n.openCli[c.pair.Addr]--
	}
	return nil
}

// Closed reports whether Close was called on this endpoint.
func (c *Conn) Closed() bool { return c.closed }

// Dead reports whether the endpoint can no longer carry data.
func (c *Conn) Dead() bool { return c.closed || c.rst }

func (c *Conn) LocalAddr() net.Addr {
	return addr(fmt.Sprintf("sim-local-%d-%v", c.pair.ID, c.client))
}
func (c *Conn) RemoteAddr() net.Addr               { return addr(c.pair.Addr) }
func (c *Conn) SetDeadline(t time.Time) error      { return nil }
func (c *Conn) SetReadDeadline(t time.Time) error  { return nil }
func (c *Conn) SetWriteDeadline(t time.Time) error { return nil }
