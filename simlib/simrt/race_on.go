//go:build race

package simrt

import (
	"runtime"
	"unsafe"
)

// RaceBuild reports whether the binary was built with the race detector.
const RaceBuild = true

// The baton hand-off serialises all tasks; if the race detector saw it, every
// pair of accesses would be ordered and no logical race could be reported. The
// simulator's own synchronisation is therefore hidden from it: the library's
// own synchronisation (mutexes, channels, atomics) stays visible.
func raceOff() { runtime.RaceDisable() }
func raceOn()  { runtime.RaceEnable() }

// RaceRelease / RaceAcquire model the happens-before edges of the real
// primitives the simulator replaces (sync.Pool Put->Get, socket write->read).
func RaceRelease(p unsafe.Pointer) { runtime.RaceReleaseMerge(p) }
func RaceAcquire(p unsafe.Pointer) { runtime.RaceAcquire(p) }
