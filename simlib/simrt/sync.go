package simrt

import (
	"sync"
	"sync/atomic"
	"time"
)

// Mutex replaces sync.Mutex in instrumented code. Ownership is decided
// cooperatively (a task that finds it held parks until it is free, so the real
// Lock below never blocks); the embedded real mutex is kept so that the race
// detector still sees the library's own happens-before edges.
type Mutex struct {
	mu   sync.Mutex
	held atomic.Bool
}

func (m *Mutex) Lock() {
	s := active.Load()
	if s == nil {
		m.mu.Lock()
		return
	}
	t := s.enter()
	for m.held.Load() {
		t.site = "mutex"
		s.park(t, func() bool { return !m.held.Load() }, time.Time{}, false)
	}
	m.held.Store(true)
	m.mu.Lock()
}

func (m *Mutex) TryLock() bool {
	s := active.Load()
	if s == nil {
		return m.mu.TryLock()
	}
	if m.held.Load() {
		return false
	}
	m.held.Store(true)
	m.mu.Lock()
	return true
}

func (m *Mutex) Unlock() {
	if active.Load() != nil {
		if !m.held.Load() {
			// in the real program this is "fatal error: sync: unlock of unlocked mutex": the whole process
			// dies, no recover can contain it. Report it as what it is instead of dying with the worker.
			Fail("process-fatal", "sync: unlock of unlocked mutex: a fatal runtime error that ends the whole process (no recover contains it)")
		}
		m.held.Store(false)
	}
	m.mu.Unlock()
}

// RWMutex replaces sync.RWMutex.
type RWMutex struct {
	mu      sync.RWMutex
	writer  atomic.Bool
	readers atomic.Int32
}

func (m *RWMutex) Lock() {
	s := active.Load()
	if s == nil {
		m.mu.Lock()
		return
	}
	t := s.enter()
	for m.writer.Load() || m.readers.Load() > 0 {
		t.site = "rwmutex.Lock"
		s.park(t, func() bool { return !m.writer.Load() && m.readers.Load() == 0 }, time.Time{}, false)
	}
	m.writer.Store(true)
	m.mu.Lock()
}

func (m *RWMutex) Unlock() {
	if active.Load() != nil {
		if !m.writer.Load() {
			Fail("process-fatal", "sync: Unlock of unlocked RWMutex: a fatal runtime error that ends the whole process (no recover contains it)")
		}
		m.writer.Store(false)
	}
	m.mu.Unlock()
}

func (m *RWMutex) RLock() {
	s := active.Load()
	if s == nil {
		m.mu.RLock()
		return
	}
	t := s.enter()
	for m.writer.Load() {
		t.site = "rwmutex.RLock"
		s.park(t, func() bool { return !m.writer.Load() }, time.Time{}, false)
	}
	m.readers.Add(1)
	m.mu.RLock()
}

func (m *RWMutex) RUnlock() {
	if active.Load() != nil {
		if m.readers.Load() <= 0 {
			Fail("process-fatal", "sync: RUnlock of unlocked RWMutex: a fatal runtime error that ends the whole process (no recover contains it)")
		}
		m.readers.Add(-1)
	}
	m.mu.RUnlock()
}

func (m *RWMutex) TryLock() bool {
	if active.Load() == nil {
		return m.mu.TryLock()
	}
	if m.writer.Load() || m.readers.Load() > 0 {
		return false
	}
	m.writer.Store(true)
	m.mu.Lock()
	return true
}

func (m *RWMutex) TryRLock() bool {
	if active.Load() == nil {
		return m.mu.TryRLock()
	}
	if m.writer.Load() {
		return false
	}
	m.readers.Add(1)
	m.mu.RLock()
	return true
}

// RLocker mirrors sync.RWMutex.RLocker.
func (m *RWMutex) RLocker() sync.Locker { return (*rlocker)(m) }

type rlocker RWMutex

func (r *rlocker) Lock()   { (*RWMutex)(r).RLock() }
func (r *rlocker) Unlock() { (*RWMutex)(r).RUnlock() }

// WaitGroup replaces sync.WaitGroup.
type WaitGroup struct {
	wg sync.WaitGroup
	n  atomic.Int64
}

func (w *WaitGroup) Add(d int) {
	w.n.Add(int64(d))
	w.wg.Add(d)
}

func (w *WaitGroup) Done() { w.Add(-1) }

func (w *WaitGroup) Go(f func()) {
	w.Add(1)
	Go("wg.Go", func() {
		defer w.Done()
		f()
	})
}

func (w *WaitGroup) Wait() {
	s := active.Load()
	if s == nil {
		w.wg.Wait()
		return
	}
	t := s.enter()
	for w.n.Load() > 0 {
		t.site = "waitgroup"
		s.park(t, func() bool { return w.n.Load() <= 0 }, time.Time{}, false)
	}
	w.wg.Wait()
}

// Once replaces sync.Once.
type Once struct {
	m    Mutex
	done atomic.Bool
}

func (o *Once) Do(f func()) {
	if o.done.Load() {
		return
	}
	o.m.Lock()
	defer o.m.Unlock()
	if !o.done.Load() {
		defer o.done.Store(true)
		f()
	}
}
