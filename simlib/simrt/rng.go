// Package simrt is the deterministic scheduler ("baton" runtime) of the /verif
// simulator. It is copied into the scratch copy of baselibrary at check time so
// that the instrumented mpx/rpc/baselibrary sources and the harness can all
// import it without touching /repo's go.mod.
package simrt

// Stream identifiers: independent PRNG streams derived from one seed.
const (
	StreamSched = iota // scheduler decisions (who runs next, pre-emption)
	StreamNet          // network: latency, fragmentation, short reads
	StreamPool         // pool reuse policy
	StreamApp          // library-visible randomness (channel ids, conn pick) and harness in-run choices
	StreamGen          // scenario generation (before the run)
	nStreams
)

// Rng is a splitmix64-seeded xorshift64* generator with an optional choice tape.
// Every random decision of a run goes through an Rng, so a run is a pure
// function of (seed, code) or of (tape, code) when replaying a minimised tape.
type Rng struct {
	s      uint64
	rec    bool
	tape   []uint32 // recorded raw draws (when rec)
	replay []uint32 // when non-nil draws come from here; exhausted => 0
	pos    int
	draws  int64
}

func splitmix(x *uint64) uint64 {
	*x += 0x9e3779b97f4a7c15
	z := *x
	z = (z ^ (z >> 30)) * 0xbf58476d1ce4e5b9
	z = (z ^ (z >> 27)) * 0x94d049bb133111eb
	return z ^ (z >> 31)
}

// NewRng returns stream `stream` of seed `seed`.
func NewRng(seed uint64, stream int) *Rng {
	x := seed ^ (uint64(stream+1) * 0xa0761d6478bd642f)
	s := splitmix(&x)
	if s == 0 {
		s = 0x2545F4914F6CDD1D
	}
	return &Rng{s: s}
}

func (r *Rng) next() uint64 {
	x := r.s
	x ^= x >> 12
	x ^= x << 25
	x ^= x >> 27
	r.s = x
	return x * 0x2545F4914F6CDD1D
}

// raw returns the next 32-bit draw, honouring the tape.
func (r *Rng) raw() uint32 {
	r.draws++
	if r.replay != nil {
		var v uint32
		if r.pos < len(r.replay) {
			v = r.replay[r.pos]
		}
		r.pos++
		return v
	}
	v := uint32(r.next() >> 32)
	if r.rec {
		r.tape = append(r.tape, v)
	}
	return v
}

// IntN returns a value in [0,n). n<=1 returns 0 without drawing.
func (r *Rng) IntN(n int) int {
	if n <= 1 {
		return 0
	}
	return int(uint64(r.raw()) * uint64(n) >> 32)
}

// Float returns a value in [0,1).
func (r *Rng) Float() float64 {
	return float64(r.raw()) / 4294967296.0
}

// Bool returns true with probability p.
func (r *Rng) Bool(p float64) bool {
	if p <= 0 {
		return false
	}
	if p >= 1 {
		return true
	}
	return r.Float() < p
}

// Range returns a value in [lo,hi].
func (r *Rng) Range(lo, hi int) int {
	if hi <= lo {
		return lo
	}
	return lo + r.IntN(hi-lo+1)
}

// Pick returns one of the given values.
func Pick[T any](r *Rng, vals ...T) T {
	return vals[r.IntN(len(vals))]
}

// Uint64 returns 64 random bits (two draws).
func (r *Rng) Uint64() uint64 {
	return uint64(r.raw())<<32 | uint64(r.raw())
}

// Perm fills a permutation of 0..n-1.
func (r *Rng) Perm(n int, out []int) []int {
	out = out[:0]
	for i := 0; i < n; i++ {
		out = append(out, i)
	}
	for i := n - 1; i > 0; i-- {
		j := r.IntN(i + 1)
		out[i], out[j] = out[j], out[i]
	}
	return out
}

// Draws reports how many draws were made.
func (r *Rng) Draws() int64 { return r.draws }
