package simrt

import (
	"reflect"
	"runtime"
	"time"
)

// tryRecv performs a non-blocking receive on ch (any channel type).
func tryRecv(ch any) bool {
	switch c := ch.(type) {
	case <-chan struct{}:
		select {
		case <-c:
			return true
		default:
			return false
		}
	case chan struct{}:
		select {
		case <-c:
			return true
		default:
			return false
		}
	case <-chan time.Time:
		select {
		case <-c:
			return true
		default:
			return false
		}
	}
	v := reflect.ValueOf(ch)
	if !v.IsValid() || v.IsNil() {
		return false
	}
	x, ok := v.TryRecv()
	return ok || x.IsValid()
}

func realSelect(chans []any, def bool) int {
	cases := make([]reflect.SelectCase, 0, len(chans)+1)
	for _, ch := range chans {
		cases = append(cases, reflect.SelectCase{Dir: reflect.SelectRecv, Chan: reflect.ValueOf(ch)})
	}
	if def {
		cases = append(cases, reflect.SelectCase{Dir: reflect.SelectDefault})
	}
	i, _, _ := reflect.Select(cases)
	if def && i == len(chans) {
		return -1
	}
	return i
}

// Select replaces a blocking `select` whose cases are all value-less receives.
// It returns the index of the chosen case. Ready cases are polled in a seeded
// order; otherwise the task blocks in a real select (durably blocking under
// synctest) and parks when woken.
func Select(site int32, chans ...any) int {
	s := active.Load()
	if s == nil {
		return realSelect(chans, false)
	}
	t := s.enter()
	if t.sched {
		panic("simrt.Select in scheduler context")
	}
	s.yield(site)
	if i := s.poll(chans); i >= 0 {
		return i
	}
	t.siteID = site
	t.site = ""
	t.real = true
	// The same channel may appear in several cases (e.g. a caller passing a channel's own
	// context): a real select would pick among them at random when it fires. Block on the
	// distinct channels only and choose among the duplicates with the run's PRNG.
	uniq := chans
	dup := false
	for a := 1; a < len(chans) && !dup; a++ {
		for b := 0; b < a; b++ {
			if sameChan(chans[a], chans[b]) {
				dup = true
				break
			}
		}
	}
	if dup {
		uniq = make([]any, 0, len(chans))
		for a := range chans {
			seen := false
			for _, u := range uniq {
				if sameChan(chans[a], u) {
					seen = true
					break
				}
			}
			if !seen {
				uniq = append(uniq, chans[a])
			}
		}
	}
	var i int
	if c, ok := structChans(uniq); ok && len(c) <= 3 {
		i = selectStruct(c, s.shutdownCh)
	} else {
		cases := make([]reflect.SelectCase, 0, len(uniq)+1)
		for _, ch := range uniq {
			cases = append(cases, reflect.SelectCase{Dir: reflect.SelectRecv, Chan: reflect.ValueOf(ch)})
		}
		cases = append(cases, reflect.SelectCase{Dir: reflect.SelectRecv, Chan: reflect.ValueOf(s.shutdownCh)})
		i, _, _ = reflect.Select(cases)
	}
	s.unblock(t)
	if i == len(uniq) {
		runtime.Goexit()
	}
	if !dup {
		return i
	}
	var cand []int
	for a := range chans {
		if sameChan(chans[a], uniq[i]) {
			cand = append(cand, a)
		}
	}
	return cand[s.rng[StreamSched].IntN(len(cand))]
}

// sameChan reports whether two select operands are the same (non-nil) channel.
func sameChan(a, b any) bool {
	va, vb := reflect.ValueOf(a), reflect.ValueOf(b)
	if !va.IsValid() || !vb.IsValid() || va.Kind() != reflect.Chan || vb.Kind() != reflect.Chan {
		return false
	}
	if va.IsNil() || vb.IsNil() {
		return false
	}
	return va.Pointer() == vb.Pointer()
}

func structChans(chans []any) ([]<-chan struct{}, bool) {
	var buf [3]<-chan struct{}
	if len(chans) > 3 {
		return nil, false
	}
	out := buf[:0]
	for _, ch := range chans {
		switch c := ch.(type) {
		case <-chan struct{}:
			out = append(out, c)
		case chan struct{}:
			out = append(out, c)
		default:
			return nil, false
		}
	}
	return out, true
}

func selectStruct(c []<-chan struct{}, sd <-chan struct{}) int {
	switch len(c) {
	case 1:
		select {
		case <-c[0]:
			return 0
		case <-sd:
			return 1
		}
	case 2:
		select {
		case <-c[0]:
			return 0
		case <-c[1]:
			return 1
		case <-sd:
			return 2
		}
	default:
		select {
		case <-c[0]:
			return 0
		case <-c[1]:
			return 1
		case <-c[2]:
			return 2
		case <-sd:
			return 3
		}
	}
}

// SelectDefault replaces a `select` with value-less receive cases and a
// default clause; it returns -1 for default.
func SelectDefault(site int32, chans ...any) int {
	s := active.Load()
	if s == nil {
		return realSelect(chans, true)
	}
	s.enter()
	return s.poll(chans)
}

func (s *Sim) poll(chans []any) int {
	n := len(chans)
	if n == 1 {
		if tryRecv(chans[0]) {
			return 0
		}
		return -1
	}
	// Find ready cases in a seeded order. To keep the number of draws small we
	// draw a start offset and a direction instead of a full permutation.
	start := s.rng[StreamSched].IntN(n)
	for k := 0; k < n; k++ {
		i := (start + k) % n
		if tryRecv(chans[i]) {
			return i
		}
	}
	return -1
}

// The generic functions below are instantiated (and race-instrumented) in the packages
// that call them, so they touch no simulator state themselves: everything that does lives
// in the non-generic helpers chanEnter / chanBlock / chanWoken.

// chanEnter is the common prologue of Recv/Send: nil when no simulation runs.
func chanEnter(site int32, what string) (*Sim, *Task) {
	s := active.Load()
	if s == nil {
		return nil, nil
	}
	t := s.enter()
	if t.sched {
		panic("simrt." + what + " in scheduler context")
	}
	s.yield(site)
	return s, t
}

func chanBlock(s *Sim, t *Task, site int32) <-chan struct{} {
	t.siteID = site
	t.site = ""
	t.real = true
	return s.shutdownCh
}

func chanWoken(s *Sim, t *Task, shutdown bool) {
	s.unblock(t)
	if shutdown {
		runtime.Goexit()
	}
}

// Recv replaces a blocking receive `<-ch`.
func Recv[T any](site int32, ch <-chan T) T {
	v, _ := Recv2(site, ch)
	return v
}

// Recv2 replaces `v, ok := <-ch`.
func Recv2[T any](site int32, ch <-chan T) (T, bool) {
	s, t := chanEnter(site, "Recv")
	if s == nil {
		v, ok := <-ch
		return v, ok
	}
	select {
	case v, ok := <-ch:
		return v, ok
	default:
	}
	sd := chanBlock(s, t, site)
	select {
	case v, ok := <-ch:
		chanWoken(s, t, false)
		return v, ok
	case <-sd:
		chanWoken(s, t, true)
	}
	panic("unreachable")
}

// Send replaces a blocking send `ch <- v`.
func Send[T any](site int32, ch chan<- T, v T) {
	s, t := chanEnter(site, "Send")
	if s == nil {
		ch <- v
		return
	}
	select {
	case ch <- v:
		return
	default:
	}
	sd := chanBlock(s, t, site)
	select {
	case ch <- v:
		chanWoken(s, t, false)
	case <-sd:
		chanWoken(s, t, true)
	}
}

// ---- mixed selects (receives that keep the value, sends) ----

// Case is one case of a select that has a send or a receive whose value is used.
type Case struct {
	send bool
	ch   reflect.Value
	val  reflect.Value
}

// RecvCase is `case v := <-ch` / `case <-ch`.
func RecvCase(ch any) Case { return Case{ch: reflect.ValueOf(ch)} }

// SendCase is `case ch <- v`.
func SendCase[T any](ch chan<- T, v T) Case {
	return Case{send: true, ch: reflect.ValueOf(ch), val: reflect.ValueOf(&v).Elem()}
}

// As converts the value received by SelectMixed to the element type of ch.
func As[T any](ch <-chan T, v any) T {
	if v == nil {
		var zero T
		return zero
	}
	return v.(T)
}

// SelectMixed replaces a select with at least one send case or one receive whose value is used.
// hasDefault: the select has a default clause (index -1 is returned for it).
// It returns the chosen case, and for a receive the value and the ok flag.
func SelectMixed(site int32, hasDefault bool, cases ...Case) (int, any, bool) {
	build := func(extra ...reflect.SelectCase) []reflect.SelectCase {
		out := make([]reflect.SelectCase, 0, len(cases)+len(extra))
		for _, c := range cases {
			if c.send {
				out = append(out, reflect.SelectCase{Dir: reflect.SelectSend, Chan: c.ch, Send: c.val})
			} else {
				out = append(out, reflect.SelectCase{Dir: reflect.SelectRecv, Chan: c.ch})
			}
		}
		return append(out, extra...)
	}
	res := func(i int, v reflect.Value, ok bool) (int, any, bool) {
		if i >= len(cases) {
			return -1, nil, false
		}
		if cases[i].send || !v.IsValid() {
			return i, nil, ok
		}
		return i, v.Interface(), ok
	}
	s := active.Load()
	if s == nil {
		if hasDefault {
			i, v, ok := reflect.Select(build(reflect.SelectCase{Dir: reflect.SelectDefault}))
			return res(i, v, ok)
		}
		i, v, ok := reflect.Select(build())
		return res(i, v, ok)
	}
	t := s.enter()
	if t.sched {
		panic("simrt.SelectMixed in scheduler context")
	}
	if !hasDefault {
		s.yield(site)
	}
	// ready cases first, starting at a seeded offset (reflect.Select would pick with the runtime's own randomness)
	n := len(cases)
	start := 0
	if n > 1 {
		start = s.rng[StreamSched].IntN(n)
	}
	for k := 0; k < n; k++ {
		i := (start + k) % n
		one := build()[i : i+1]
		j, v, ok := reflect.Select(append(one, reflect.SelectCase{Dir: reflect.SelectDefault}))
		if j == 0 {
			return res(i, v, ok)
		}
	}
	if hasDefault {
		return -1, nil, false
	}
	t.siteID = site
	t.site = ""
	t.real = true
	i, v, ok := reflect.Select(build(reflect.SelectCase{Dir: reflect.SelectRecv, Chan: reflect.ValueOf(s.shutdownCh)}))
	s.unblock(t)
	if i == n {
		runtime.Goexit()
	}
	return res(i, v, ok)
}
