//go:build !race

package simrt

import "unsafe"

// RaceBuild reports whether the binary was built with the race detector.
const RaceBuild = false

func raceOff() {}
func raceOn()  {}

func RaceRelease(p unsafe.Pointer) {}
func RaceAcquire(p unsafe.Pointer) {}
