package simrt

import (
	"fmt"
	"testing"
	"time"
)

func toy(out *[]string) func() {
	return func() {
		var mu Mutex
		ch := make(chan int)
		done := make(chan struct{})
		n := 0
		for i := 0; i < 3; i++ {
			i := i
			Go(fmt.Sprint("w", i), func() {
				for k := 0; k < 5; k++ {
					mu.Lock()
					Yield(int32(10 + i))
					n++
					*out = append(*out, fmt.Sprintf("w%d:%d@%v", i, n, Now()))
					mu.Unlock()
					Yield(1)
					Sleep(time.Duration(i+1) * time.Millisecond)
				}
				Send(2, ch, i)
			})
		}
		Go("closer", func() {
			for i := 0; i < 3; i++ {
				v := Recv(3, ch)
				*out = append(*out, fmt.Sprint("got", v))
			}
			close(done)
		})
		// a task that stays blocked forever in a real select (must be shut down)
		Go("leaker", func() {
			defer func() { Yield(5) }() // simrt entry during Goexit defers
			never := make(chan struct{})
			Select(4, never, (<-chan struct{})(nil))
		})
		i := Select(6, done, time.After(time.Hour))
		*out = append(*out, fmt.Sprint("sel", i, Now()))
	}
}

func TestToyDeterministic(t *testing.T) {
	var first []string
	hashes := map[uint64]bool{}
	for seed := uint64(1); seed <= 50; seed++ {
		var a, b []string
		ra := Run(t, Config{Seed: seed, PYield: 0.5}, toy(&a))
		rb := Run(t, Config{Seed: seed, PYield: 0.5}, toy(&b))
		if ra.InfraError != "" || len(ra.Stuck) > 0 {
			t.Fatalf("infra: %v stuck=%v", ra.InfraError, ra.Stuck)
		}
		if fmt.Sprint(a) != fmt.Sprint(b) || ra.SchedHash != rb.SchedHash {
			t.Fatalf("seed %d not deterministic:\n%v\n%v", seed, a, b)
		}
		if len(ra.Blocked) != 1 {
			t.Fatalf("blocked: %v", ra.Blocked)
		}
		hashes[ra.SchedHash] = true
		if first == nil {
			first = a
			t.Log(a, ra.Steps, ra.SimTime, ra.Blocked)
		}
	}
	if len(hashes) < 40 {
		t.Fatalf("only %d distinct schedules", len(hashes))
	}
}

func TestDeadlock(t *testing.T) {
	r := Run(t, Config{Seed: 1}, func() {
		ch := make(chan int)
		Recv(1, ch)
	})
	if !r.Deadlock {
		t.Fatalf("expected deadlock, got %+v", r)
	}
	if len(r.Stuck) > 0 || r.InfraError != "" {
		t.Fatalf("stuck %v %v", r.Stuck, r.InfraError)
	}
}

func TestFail(t *testing.T) {
	r := Run(t, Config{Seed: 1}, func() {
		Go("x", func() { Sleep(time.Second); Fail("rule", "boom %d", 1) })
		Sleep(time.Minute)
	})
	if len(r.Violations) != 1 || r.Violations[0].Rule != "rule" {
		t.Fatalf("%+v", r)
	}
}

func TestPCT(t *testing.T) {
	var a []string
	r := Run(t, Config{Seed: 3, Policy: PolicyPCT, PCTDepth: 2, PCTLength: 40}, toy(&a))
	if r.InfraError != "" {
		t.Fatal(r.InfraError)
	}
	t.Log(a)
}
