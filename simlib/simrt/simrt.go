package simrt

import (
	"fmt"
	"hash/fnv"
	"os"
	"runtime"
	"runtime/debug"
	"sort"
	"strings"
	"sync/atomic"
	"testing"
	"testing/synctest"
	"time"
)

// Scheduling policies.
const (
	PolicyRandom = iota // uniform random walk; Yield parks with probability PYield
	PolicyPCT           // priority based with D change points
)

// Config configures one simulated run.
type Config struct {
	Seed      uint64
	Policy    int
	PYield    float64 // PolicyRandom: probability that an enabled yield site pre-empts
	PCTDepth  int     // PolicyPCT: number of priority change points
	PCTLength int     // PolicyPCT: estimated number of yield points in the run
	SiteMask  uint64  // yield site i is enabled iff bit (hash(i) % 64) is set; ^0 = all
	MaxSteps  int64   // scheduler decisions cap
	MaxSim    time.Duration
	HotMod    int // >0: sites with id % HotMod == HotRem always pre-empt
	HotRem    int
	// Spawn lag (delay injection): after an instrumented `go` statement whose site is selected
	// ((hash(site)^SpawnSalt) % SpawnMod == 0) the parent is not scheduled again for 1<<k scheduler
	// steps, k drawn below SpawnLag, or until nothing else can run: the child overtakes its parent.
	SpawnLag  int
	SpawnMod  int
	SpawnSalt int
	Horizon   time.Duration // idle for this long with nothing enabled => deadlock
	LivelockSteps int64     // this many scheduler steps without the simulated clock advancing => livelock
	NoProgressYields int64  // this many yield points passed without any progress event (bytes moved, log events, task start/end, clock) => livelock
	KeepLog   bool          // keep the textual event log (else only hashed)
	Record    bool          // record the choice tape
	Replay    *Tape         // replay from this tape instead of the seed
	OnIdle    func()        // called by the scheduler at every quiescent instant
	CheckGoid bool          // verify the caller of simrt entry points is the baton holder
}

// Tape is the recorded sequence of raw draws per stream.
type Tape struct {
	Streams [nStreams][]uint32 `json:"streams"`
}

// Violation is a property violation found by an oracle during the run.
type Violation struct {
	Rule   string `json:"rule"`   // short stable identifier of the oracle rule
	Detail string `json:"detail"` // human readable
	Step   int64  `json:"step"`
}

// Result summarises a finished run.
type Result struct {
	Steps       int64
	Switches    int64
	Yields      int64
	Parks       int64
	SpawnLags   int64 // times a parent was held behind the goroutine it had just started
	SimTime     time.Duration
	Tasks       int
	Deadlock    bool
	Livelock    bool // too many steps at one simulated instant, or too many yield points without progress
	LivelockAt  string
	StepCap     bool
	SimCap      bool
	Blocked     []string // tasks not done at end of run (before shutdown): "name @ site"
	Stuck       []string // tasks that could not be shut down
	Violations  []Violation
	Panics      []string // recovered or unrecovered panics seen (text)
	LogHash     uint64
	SchedHash   uint64
	Log         []string
	Tape        *Tape
	InfraError  string
	PreemptPair map[uint64]struct{}
	SitesHit    map[int32]struct{}
}

const (
	stRunning int32 = iota
	stParked
	stDone
	stDormant // task of a timer callback that has not fired yet
)

// Task is a simulated goroutine.
type Task struct {
	id      int
	name    string
	baton   chan struct{}
	state   atomic.Int32
	cond    func() bool
	wakeAt  time.Time
	quiesce bool // runnable only when nothing else is
	site    string
	siteID  int32
	prio    int
	real    bool // blocked in a real primitive
	sched   bool // pseudo task of the scheduler goroutine
	gid     int64
	daemon  bool
	sinceParked int64
	holdUntil   int64 // scheduler step before which the task is not chosen (delay injection)
}

func (t *Task) Name() string { return t.name }

// Sim is one simulated run.
type Sim struct {
	cfg        Config
	tasks      []*Task // live tasks in creation order (finished ones are compacted away)
	nTasks     int
	sameInstant int64
	lastNow    time.Time
	progressAt int64 // value of yields at the last progress event
	cur        *Task
	last       *Task
	schedTask  *Task
	wake       chan struct{}
	shutdownCh chan struct{}
	shutdown   atomic.Bool
	rng        [nStreams]*Rng
	start      time.Time

	steps, switches, yields, parks int64
	pctPoints                      map[int64]bool
	pctCount                       int64
	nextPrio                       int

	res        Result
	logh       uint64
	schedh     uint64
	lastSiteID int32
	abort      bool
	endReason  string
	panicCount int
	wakeTimes  []time.Time // instants at which parked conditions must be re-evaluated
}

var active atomic.Pointer[Sim]

var debugEnv = os.Getenv("SIMRT_DEBUG") != ""

// Active reports whether a simulation is running in this process.
func Active() bool { return active.Load() != nil }

// Current returns the running simulation or nil.
func Current() *Sim { return active.Load() }

func goid() int64 {
	var buf [64]byte
	n := runtime.Stack(buf[:], false)
	// "goroutine 123 ["
	s := string(buf[:n])
	s = strings.TrimPrefix(s, "goroutine ")
	var id int64
	for i := 0; i < len(s) && s[i] >= '0' && s[i] <= '9'; i++ {
		id = id*10 + int64(s[i]-'0')
	}
	return id
}

// Run executes root as task "main" inside a synctest bubble under the seeded
// scheduler and returns when root has returned (or the run was aborted) and all
// tasks have been shut down.
func Run(t *testing.T, cfg Config, root func()) (res *Result) {
	if cfg.MaxSteps == 0 {
		cfg.MaxSteps = 2_000_000
	}
	if cfg.MaxSim == 0 {
		cfg.MaxSim = 30 * time.Minute
	}
	if cfg.Horizon == 0 {
		cfg.Horizon = time.Hour
	}
	if cfg.SiteMask == 0 {
		cfg.SiteMask = ^uint64(0)
	}
	if cfg.NoProgressYields == 0 {
		cfg.NoProgressYields = 3_000_000
	}
	s := &Sim{cfg: cfg}
	for i := range s.rng {
		s.rng[i] = NewRng(cfg.Seed, i)
		s.rng[i].rec = cfg.Record
		if cfg.Replay != nil {
			s.rng[i].replay = cfg.Replay.Streams[i]
			if s.rng[i].replay == nil {
				s.rng[i].replay = []uint32{}
			}
		}
	}
	s.res.PreemptPair = map[uint64]struct{}{}
	s.res.SitesHit = map[int32]struct{}{}
	s.logh = 1469598103934665603
	s.schedh = 1469598103934665603
	if cfg.Policy == PolicyPCT {
		s.pctPoints = map[int64]bool{}
		n := cfg.PCTLength
		if n < 10 {
			n = 10
		}
		for i := 0; i < cfg.PCTDepth; i++ {
			s.pctPoints[int64(s.rng[StreamSched].IntN(n))+1] = true
		}
	}

	func() {
		defer func() {
			if e := recover(); e != nil {
				msg := fmt.Sprint(e)
				if strings.Contains(msg, "deadlock") && strings.Contains(msg, "bubble") {
					// goroutines left blocked in the bubble after shutdown
					if s.res.InfraError == "" && len(s.res.Stuck) == 0 {
						s.res.Stuck = append(s.res.Stuck, "bubble: "+msg)
					}
					return
				}
				s.res.InfraError = fmt.Sprintf("simulator panic: %v\n%s", e, debug.Stack())
			}
		}()
		if RaceBuild {
			// the testing package fails (and then aborts) a test in which the race detector fired;
			// a sub-test per run keeps one report from ending the whole batch
			t.Run("run", func(t2 *testing.T) {
				defer func() {
					if e := recover(); e != nil {
						msg := fmt.Sprint(e)
						if strings.Contains(msg, "deadlock") && strings.Contains(msg, "bubble") {
							if s.res.InfraError == "" && len(s.res.Stuck) == 0 {
								s.res.Stuck = append(s.res.Stuck, "bubble: "+msg)
							}
							return
						}
						s.res.InfraError = fmt.Sprintf("simulator panic: %v\n%s", e, debug.Stack())
					}
				}()
				synctest.Test(t2, func(t3 *testing.T) {
					s.bubble(root)
				})
			})
			return
		}
		synctest.Test(t, func(t *testing.T) {
			s.bubble(root)
		})
	}()
	active.Store(nil)
	runResetHooks()

	s.res.Steps = s.steps
	s.res.Switches = s.switches
	s.res.Yields = s.yields
	s.res.Parks = s.parks
	s.res.Tasks = s.nTasks
	s.res.LogHash = s.logh
	s.res.SchedHash = s.schedh
	if cfg.Record {
		tp := &Tape{}
		for i := range s.rng {
			tp.Streams[i] = s.rng[i].tape
		}
		s.res.Tape = tp
	}
	return &s.res
}

func (s *Sim) bubble(root func()) {
	s.start = time.Now()
	s.wake = make(chan struct{}, 1)
	s.shutdownCh = make(chan struct{})
	s.schedTask = &Task{id: -1, name: "scheduler", sched: true}
	s.cur = s.schedTask
	active.Store(s)

	main := s.newTask("main")
	go main.run(s, root) // started with synchronisation visible: everything before the run happens-before it
	raceOff()
	defer raceOn()

	s.loop(main)
	s.res.SimTime = time.Since(s.start)

	// Record what was still blocked before shutting down.
	for _, t := range s.tasks {
		if st := t.state.Load(); st != stDone && st != stDormant {
			s.res.Blocked = append(s.res.Blocked, fmt.Sprintf("%s @ %s", t.name, t.where()))
		}
	}
	s.doShutdown()
}

func (t *Task) where() string {
	if t.site != "" {
		return t.site
	}
	if t.siteID != 0 {
		return SiteName(t.siteID)
	}
	return "?"
}

func (s *Sim) newTask(name string) *Task {
	t := &Task{id: s.nTasks, name: name, baton: make(chan struct{})}
	s.nTasks++
	s.progressAt = s.yields
	t.state.Store(stParked)
	if s.cfg.Policy == PolicyPCT {
		// random initial priority above all change-point priorities
		t.prio = 1000 + s.rng[StreamSched].IntN(1_000_000)
	}
	s.tasks = append(s.tasks, t)
	return t
}

func (t *Task) run(s *Sim, fn func()) {
	raceOff()
	<-t.baton
	raceOn()
	if s.cfg.CheckGoid {
		t.gid = goid()
	}
	defer func() {
		if e := recover(); e != nil {
			s.recordPanic(e, true)
		}
		raceOff()
		t.state.Store(stDone)
	}()
	if s.shutdown.Load() {
		return
	}
	fn()
}

// loop is the scheduler; it runs on the bubble's root goroutine.
func (s *Sim) loop(main *Task) {
	var enabled []*Task
	for {
		synctest.Wait()
		s.cur = s.schedTask
		if s.abort {
			s.endReason = "abort"
			return
		}
		if main.state.Load() == stDone {
			s.endReason = "main-done"
			return
		}
		now := time.Now()
		if now.Sub(s.start) > s.cfg.MaxSim {
			s.res.SimCap = true
			s.endReason = "sim-cap"
			return
		}
		if now.Equal(s.lastNow) {
			s.sameInstant++
			if s.cfg.LivelockSteps > 0 && s.sameInstant > s.cfg.LivelockSteps {
				s.res.Livelock = true
				s.res.LivelockAt = fmt.Sprintf("%d scheduler steps at one simulated instant", s.sameInstant)
				s.endReason = "livelock"
				return
			}
		} else {
			s.lastNow, s.sameInstant = now, 0
			s.progressAt = s.yields
		}
		enabled = enabled[:0]
		var quiescers []*Task
		var earliest time.Time
		var held *Task // the held task that is due first
		// compact finished tasks away (keeps creation order)
		k := 0
		for _, t := range s.tasks {
			if t.state.Load() != stDone {
				s.tasks[k] = t
				k++
			}
		}
		for i := k; i < len(s.tasks); i++ {
			s.tasks[i] = nil
		}
		s.tasks = s.tasks[:k]
		for _, t := range s.tasks {
			if t.state.Load() != stParked {
				continue
			}
			if t.quiesce {
				quiescers = append(quiescers, t)
				continue
			}
			if t.cond == nil && t.wakeAt.IsZero() {
				if t.holdUntil > s.steps {
					if held == nil || t.holdUntil < held.holdUntil {
						held = t
					}
					continue
				}
				enabled = append(enabled, t)
				continue
			}
			if t.cond != nil && t.cond() {
				enabled = append(enabled, t)
				continue
			}
			if !t.wakeAt.IsZero() {
				if !now.Before(t.wakeAt) {
					enabled = append(enabled, t)
					continue
				}
				if earliest.IsZero() || t.wakeAt.Before(earliest) {
					earliest = t.wakeAt
				}
			}
		}
		if len(s.wakeTimes) > 0 {
			k := 0
			for _, w := range s.wakeTimes {
				if w.After(now) {
					s.wakeTimes[k] = w
					k++
					if earliest.IsZero() || w.Before(earliest) {
						earliest = w
					}
				}
			}
			s.wakeTimes = s.wakeTimes[:k]
		}
		if len(enabled) == 0 && held != nil {
			// nothing else can run: the hold ends early
			held.holdUntil = 0
			enabled = append(enabled, held)
		}
		if len(enabled) == 0 {
			// quiescent instant
			if s.cfg.OnIdle != nil {
				s.cfg.OnIdle()
				if s.abort {
					s.endReason = "abort"
					return
				}
			}
			if len(quiescers) > 0 {
				enabled = append(enabled, quiescers[0])
			} else {
				d := s.cfg.Horizon
				if !earliest.IsZero() {
					d = earliest.Sub(now)
				}
				timer := time.NewTimer(d)
				select {
				case <-s.wake:
					timer.Stop()
				case <-timer.C:
					if earliest.IsZero() {
						// nothing became runnable for a whole horizon: deadlock
						s.res.Deadlock = true
						s.endReason = "deadlock"
						return
					}
				}
				continue
			}
		}
		s.steps++
		if debugEnv && s.steps%100000 == 0 {
			fmt.Fprintf(os.Stderr, "simrt: step %d now=%v live=%d enabled=%d yields=%d parks=%d dump=%v\n", s.steps, now.Sub(s.start), len(s.tasks), len(enabled), s.yields, s.parks, s.TaskDump())
		}
		if s.steps > s.cfg.MaxSteps {
			s.res.StepCap = true
			s.endReason = "step-cap"
			return
		}
		var next *Task
		if len(enabled) == 1 {
			next = enabled[0]
		} else if s.cfg.Policy == PolicyPCT {
			next = enabled[0]
			for _, t := range enabled[1:] {
				if t.prio > next.prio {
					next = t
				}
			}
		} else {
			next = enabled[s.rng[StreamSched].IntN(len(enabled))]
		}
		s.schedh = (s.schedh ^ uint64(next.id+1)) * 1099511628211
		s.dispatch(next)
	}
}

func (s *Sim) dispatch(t *Task) {
	if s.lastTask() != t {
		s.switches++
	}
	t.quiesce = false
	t.cond = nil
	t.wakeAt = time.Time{}
	t.state.Store(stRunning)
	s.cur = t
	s.last = t
	t.baton <- struct{}{}
}

func (s *Sim) lastTask() *Task { return s.last }

// doShutdown ends every remaining task: real-blocked tasks are woken through
// shutdownCh and park; parked tasks are handed the baton one at a time and
// leave via runtime.Goexit at their next simulation entry point.
func (s *Sim) doShutdown() {
	s.shutdown.Store(true)
	close(s.shutdownCh)
	for round := 0; round < 10_000_000; round++ {
		synctest.Wait()
		s.cur = s.schedTask
		var next *Task
		alive := 0
		for _, t := range s.tasks {
			st := t.state.Load()
			if st == stDone || st == stDormant {
				continue
			}
			alive++
			if st == stParked && next == nil {
				next = t
			}
		}
		if alive == 0 {
			return
		}
		if next == nil {
			// tasks blocked in a primitive the simulator does not control
			for _, t := range s.tasks {
				if st := t.state.Load(); st != stDone && st != stDormant {
					s.res.Stuck = append(s.res.Stuck, fmt.Sprintf("%s @ %s", t.name, t.where()))
				}
			}
			return
		}
		next.state.Store(stRunning)
		s.cur = next
		next.baton <- struct{}{}
	}
}

// ---- entry points used by instrumented code ----

func (s *Sim) enter() *Task {
	if s.shutdown.Load() {
		runtime.Goexit()
	}
	t := s.cur
	if s.cfg.CheckGoid && !t.sched {
		if g := goid(); t.gid != 0 && g != t.gid {
			s.infra(fmt.Sprintf("simrt entered by goroutine %d but baton holder is task %s (goroutine %d)", g, t.name, t.gid))
		}
	}
	return t
}

func (s *Sim) infra(msg string) {
	if s.res.InfraError == "" {
		s.res.InfraError = msg + "\n" + string(debug.Stack())
	}
	s.abort = true
}

// park blocks the calling task (which holds the baton) until the scheduler
// selects it again.
func (s *Sim) park(t *Task, cond func() bool, wakeAt time.Time, quiesce bool) {
	if t.sched {
		s.infra("scheduler context tried to park at " + t.where())
		panic("simrt: scheduler context cannot park (" + t.where() + ")")
	}
	s.parks++
	t.sinceParked = 0
	t.cond = cond
	t.wakeAt = wakeAt
	t.quiesce = quiesce
	raceOff()
	t.state.Store(stParked)
	<-t.baton
	raceOn()
	if s.shutdown.Load() {
		runtime.Goexit()
	}
}

// unblock is called by a task that has just been woken out of a real blocking
// primitive: it parks until the scheduler hands it the baton.
func (s *Sim) unblock(t *Task) {
	t.real = false
	t.cond = nil
	t.wakeAt = time.Time{}
	t.quiesce = false
	raceOff()
	t.state.Store(stParked)
	select {
	case s.wake <- struct{}{}:
	default:
	}
	<-t.baton
	raceOn()
	if s.shutdown.Load() {
		runtime.Goexit()
	}
}

func siteBit(site int32) uint64 {
	x := uint32(site) * 2654435761
	return 1 << (x >> 26)
}

// Yield is a pre-emption point inserted before statements of the code under test.
func Yield(site int32) {
	s := active.Load()
	if s == nil {
		return
	}
	s.yield(site)
}

func (s *Sim) yield(site int32) {
	if s.shutdown.Load() {
		runtime.Goexit()
	}
	t := s.cur
	if t.sched {
		return
	}
	s.yields++
	t.sinceParked++
	if s.yields-s.progressAt > s.cfg.NoProgressYields {
		// a loop in the code under test that neither blocks nor achieves anything
		s.res.Livelock = true
		s.res.LivelockAt = fmt.Sprintf("task %s near %s", t.name, SiteName(site))
		s.abort = true
		s.shutdown.Store(true)
		runtime.Goexit()
	}
	if t.sinceParked > 100_000 {
		// never let one task monopolise the processor: the scheduler (and its caps) must get a turn
		t.siteID = site
		t.site = ""
		s.park(t, nil, time.Time{}, false)
		return
	}
	// hot sites: a few sites per run at which every arriving task is pre-empted, so that several
	// tasks pile up inside the same narrow window (between a check and the act that follows it)
	hot := s.cfg.HotMod > 0 && int(site)%s.cfg.HotMod == s.cfg.HotRem
	if !hot && s.cfg.SiteMask&siteBit(site) == 0 {
		return
	}
	switch s.cfg.Policy {
	case PolicyPCT:
		s.pctCount++
		if !hot && !s.pctPoints[s.pctCount] {
			return
		}
		s.nextPrio++
		t.prio = 100 - s.nextPrio // below every initial priority, later points lower
	default:
		if !hot && (s.cfg.PYield <= 0 || s.rng[StreamSched].Float() >= s.cfg.PYield) {
			return
		}
	}
	if s.cfg.CheckGoid {
		s.enter()
	}
	s.res.SitesHit[site] = struct{}{}
	s.res.PreemptPair[uint64(uint32(s.lastSiteID))<<32|uint64(uint32(site))] = struct{}{}
	s.lastSiteID = site
	t.siteID = site
	t.site = ""
	s.park(t, nil, time.Time{}, false)
}

// ForceYield parks the caller unconditionally (used by the harness).
func ForceYield(site string) {
	s := active.Load()
	if s == nil {
		runtime.Gosched()
		return
	}
	t := s.enter()
	if t.sched {
		return
	}
	t.site = site
	s.park(t, nil, time.Time{}, false)
}

// Go starts fn as a new task.
func Go(name string, fn func()) {
	s := active.Load()
	if s == nil {
		go fn()
		return
	}
	s.enter()
	t := s.newTask(name)
	go t.run(s, fn)
}

// AfterFunc replaces time.AfterFunc: the callback runs as a task whose identity
// is fixed when the timer is created, so firing order stays deterministic.
func AfterFunc(d time.Duration, f func()) *time.Timer {
	s := active.Load()
	if s == nil {
		return time.AfterFunc(d, f)
	}
	s.enter()
	t := s.newTask("afterfunc")
	t.state.Store(stDormant)
	return time.AfterFunc(d, func() {
		if active.Load() != s {
			return
		}
		if s.cfg.CheckGoid {
			t.gid = goid()
		}
		defer func() {
			if e := recover(); e != nil {
				s.recordPanic(e, true)
			}
			t.state.Store(stDone)
		}()
		raceOff()
		t.state.Store(stParked)
		select {
		case s.wake <- struct{}{}:
		default:
		}
		<-t.baton
		raceOn()
		if s.shutdown.Load() {
			return
		}
		f()
	})
}

// GoSite is Go for instrumented `go` statements.
func GoSite(site int32, fn func()) {
	if active.Load() == nil {
		go fn()
		return
	}
	Go(SiteName(site), fn)
	s := active.Load()
	if s == nil || s.cfg.SpawnLag <= 0 || s.cfg.SpawnMod <= 0 || s.shutdown.Load() {
		return
	}
	if (int(uint32(site)*2654435761>>16)^s.cfg.SpawnSalt)%s.cfg.SpawnMod != 0 {
		return
	}
	t := s.enter()
	t.holdUntil = s.steps + int64(1)<<s.rng[StreamSched].IntN(s.cfg.SpawnLag)
	s.res.SpawnLags++
	t.siteID = site
	t.site = ""
	s.park(t, nil, time.Time{}, false)
}

// WaitCond parks the caller until pred() holds. pred is evaluated by the
// scheduler while no task runs; it must be side-effect free and must not block.
func WaitCond(site string, pred func() bool) {
	s := active.Load()
	if s == nil {
		panic("simrt.WaitCond outside simulation")
	}
	t := s.enter()
	for !pred() {
		t.site = site
		s.park(t, pred, time.Time{}, false)
	}
}

// WaitCondUntil is WaitCond with a deadline on the simulated clock; it returns
// pred()'s final value.
func WaitCondUntil(site string, pred func() bool, deadline time.Time) bool {
	s := active.Load()
	if s == nil {
		panic("simrt.WaitCondUntil outside simulation")
	}
	t := s.enter()
	for !pred() {
		if !time.Now().Before(deadline) {
			return false
		}
		t.site = site
		s.park(t, pred, deadline, false)
	}
	return true
}

// Sleep blocks the caller for d of simulated time.
func Sleep(d time.Duration) {
	s := active.Load()
	if s == nil {
		time.Sleep(d)
		return
	}
	t := s.enter()
	if d <= 0 {
		t.site = "sleep0"
		s.park(t, nil, time.Time{}, false)
		return
	}
	dl := time.Now().Add(d)
	for time.Now().Before(dl) {
		t.site = "sleep"
		s.park(t, neverTrue, dl, false)
	}
}

func neverTrue() bool { return false }

// WaitQuiescent parks the caller until nothing else in the system is runnable
// at the current simulated instant.
func WaitQuiescent(site string) {
	s := active.Load()
	if s == nil {
		panic("simrt.WaitQuiescent outside simulation")
	}
	t := s.enter()
	t.site = site
	s.park(t, nil, time.Time{}, true)
}

// Progress tells the scheduler that the system achieved something (bytes moved, an event logged).
func Progress() {
	if s := active.Load(); s != nil {
		s.progressAt = s.yields
	}
}

// NotifyAt asks the scheduler to re-evaluate parked conditions at simulated
// instant at (used by simnet when data becomes readable in the future).
func NotifyAt(at time.Time) {
	s := active.Load()
	if s == nil {
		return
	}
	s.wakeTimes = append(s.wakeTimes, at)
}

// Now returns the simulated time elapsed since the start of the run.
func Now() time.Duration {
	s := active.Load()
	if s == nil {
		return 0
	}
	return time.Since(s.start)
}

// Step returns the global scheduler step number (event sequence number).
func Step() int64 {
	s := active.Load()
	if s == nil {
		return 0
	}
	return s.steps
}

// CurrentTask returns the name of the running task.
func CurrentTask() string {
	s := active.Load()
	if s == nil {
		return ""
	}
	return s.cur.name
}

// CurrentTaskID returns the id of the running task (-1 outside tasks).
func CurrentTaskID() int {
	s := active.Load()
	if s == nil {
		return -1
	}
	return s.cur.id
}

// Rand returns stream `stream` of the running simulation.
func Rand(stream int) *Rng {
	s := active.Load()
	if s == nil {
		panic("simrt.Rand outside simulation")
	}
	return s.rng[stream]
}

// IntN replaces math/rand/v2.IntN in instrumented code.
func IntN(n int) int {
	s := active.Load()
	if s == nil {
		return 0
	}
	return s.rng[StreamApp].IntN(n)
}

// Random16 replaces crypto randomness for 128-bit ids.
func Random16() (b [16]byte) {
	s := active.Load()
	if s == nil {
		fallbackCtr++
		x := fallbackCtr
		for i := 0; i < 8; i++ {
			b[i] = byte(x >> (8 * i))
		}
		b[15] = 0x77
		return
	}
	x, y := s.rng[StreamApp].Uint64(), s.rng[StreamApp].Uint64()
	for i := 0; i < 8; i++ {
		b[i] = byte(x >> (8 * i))
		b[8+i] = byte(y >> (8 * i))
	}
	return
}

var fallbackCtr uint64

// Fail records a violation and aborts the run. It does not return when called
// from a task.
func Fail(rule, format string, args ...any) {
	s := active.Load()
	if s == nil {
		panic("simrt.Fail outside simulation: " + rule)
	}
	s.res.Violations = append(s.res.Violations, Violation{Rule: rule, Detail: fmt.Sprintf(format, args...), Step: s.steps})
	s.abort = true
	if !s.cur.sched {
		s.shutdown.Store(true)
		runtime.Goexit()
	}
}

// Report records a violation without aborting (the run continues).
func Report(rule, format string, args ...any) {
	s := active.Load()
	if s == nil {
		return
	}
	if len(s.res.Violations) < 50 {
		s.res.Violations = append(s.res.Violations, Violation{Rule: rule, Detail: fmt.Sprintf(format, args...), Step: s.steps})
	}
}

// Logf appends to the event log (hashed always, kept when Config.KeepLog).
func Logf(format string, args ...any) {
	s := active.Load()
	if s == nil {
		return
	}
	s.progressAt = s.yields
	line := fmt.Sprintf(format, args...)
	h := fnv.New64a()
	h.Write([]byte(line))
	s.logh = (s.logh ^ h.Sum64()) * 1099511628211
	s.logh = (s.logh ^ uint64(s.steps)) * 1099511628211
	if s.cfg.KeepLog {
		s.res.Log = append(s.res.Log, fmt.Sprintf("%7d %10s %-14s %s", s.steps, time.Since(s.start), s.cur.name, line))
	}
}

// Tracef appends to the kept event log only (never hashed): debugging detail.
func Tracef(format string, args ...any) {
	s := active.Load()
	if s == nil || !s.cfg.KeepLog {
		return
	}
	s.res.Log = append(s.res.Log, fmt.Sprintf("%7d %10s %-14s   . %s", s.steps, time.Since(s.start), s.cur.name, fmt.Sprintf(format, args...)))
}

// Tracing reports whether Tracef records anything.
func Tracing() bool {
	s := active.Load()
	return s != nil && s.cfg.KeepLog
}

// PanicCount returns the number of non-sentinel panics recorded so far in this run.
func PanicCount() int {
	s := active.Load()
	if s == nil {
		return 0
	}
	return s.panicCount
}

// PanicSentinel is the value harness code panics with on purpose.
type PanicSentinel struct{ Tag string }

func (p PanicSentinel) Error() string { return "verif-sentinel-panic:" + p.Tag }

// RecordPanic is called from the hook in status.Recover and from task wrappers.
func RecordPanic(e any) {
	s := active.Load()
	if s == nil {
		return
	}
	s.recordPanic(e, false)
}

func (s *Sim) recordPanic(e any, unrecovered bool) {
	if _, ok := e.(PanicSentinel); ok {
		return
	}
	if err, ok := e.(error); ok && strings.HasPrefix(err.Error(), "verif-sentinel-panic:") {
		return
	}
	s.panicCount++
	kind := "recovered"
	if unrecovered {
		kind = "UNRECOVERED"
	}
	msg := fmt.Sprintf("%s panic in task %s: %v", kind, s.cur.name, e)
	if len(s.res.Panics) < 20 {
		st := string(debug.Stack())
		s.res.Panics = append(s.res.Panics, msg+"\n"+trimStack(st))
	}
	Logf("PANIC %s", msg)
}

func trimStack(st string) string {
	lines := strings.Split(st, "\n")
	var out []string
	for i := 0; i+1 < len(lines); i++ {
		l := lines[i]
		if strings.Contains(l, "/spec/") || strings.Contains(l, "baselibrary/") || strings.Contains(l, "verif") {
			if !strings.Contains(l, "simrt.") {
				out = append(out, strings.TrimSpace(l)+" "+strings.TrimSpace(lines[i+1]))
			}
		}
	}
	if len(out) > 14 {
		out = out[:14]
	}
	return strings.Join(out, "\n")
}

// LiveTasks lists every task other than the caller that has not finished.
func LiveTasks() []string {
	s := active.Load()
	if s == nil {
		return nil
	}
	var out []string
	for _, t := range s.tasks {
		st := t.state.Load()
		if st == stDone || st == stDormant || t == s.cur {
			continue
		}
		out = append(out, fmt.Sprintf("%s @ %s", t.name, t.where()))
	}
	return out
}

// TaskDump lists all live tasks with their wait sites (for deadlock reports).
func (s *Sim) TaskDump() []string {
	var out []string
	for _, t := range s.tasks {
		st := t.state.Load()
		if st == stDone || st == stDormant {
			continue
		}
		k := "parked"
		if st == stRunning {
			k = "blocked"
		}
		out = append(out, fmt.Sprintf("%s[%s] @ %s", t.name, k, t.where()))
	}
	sort.Strings(out)
	return out
}

// ---- registry of objects of the current run (probes) ----

var registry = map[string][]any{}

// RegAdd remembers x under key for the rest of the run.
func RegAdd(key string, x any) { registry[key] = append(registry[key], x) }

// RegList returns what was remembered under key in this run.
func RegList(key string) []any { return registry[key] }

func init() { OnReset(func() { clear(registry) }) }

// ---- reset hooks (pools etc.) ----

var resetHooks []func()

// OnReset registers fn to run after every simulated run (pool free lists, network tables).
func OnReset(fn func()) { resetHooks = append(resetHooks, fn) }

func runResetHooks() {
	for _, fn := range resetHooks {
		fn()
	}
}

// ---- site table ----

var siteNames = map[int32]string{}

// RegisterSites is called from generated init code of instrumented packages.
func RegisterSites(base int32, names []string) {
	for i, n := range names {
		siteNames[base+int32(i)] = n
	}
}

// SiteName maps a site id to file:line.
func SiteName(id int32) string {
	if n, ok := siteNames[id]; ok {
		return n
	}
	return fmt.Sprintf("site#%d", id)
}

// NumSites returns the number of registered sites.
func NumSites() int { return len(siteNames) }
