module verif/instrument

go 1.26.0

require golang.org/x/tools v0.50.0
