// Command instrument rewrites Go source of the code under test so that it runs
// under the /verif deterministic scheduler (simrt) and simulated network
// (simnet). It never changes logic: it substitutes the nondeterministic
// seams (goroutine creation, blocking channel operations, select, mutexes,
// net.Listen / Dialer.DialContext, math/rand) and optionally inserts
// pre-emption points before statements.
//
// It fails closed: a construct it cannot rewrite soundly aborts with exit 2.
//
// usage: instrument -mode full|sync -dir <pkgdir> -out <outdir> -base <n> -label <prefix>
// prints one line per file "orig\trewritten" on stdout.
package main

import (
	"bytes"
	"flag"
	"fmt"
	"go/ast"
	"go/parser"
	"go/printer"
	"go/token"
	"os"
	"path/filepath"
	"sort"
	"strconv"
	"strings"

	"golang.org/x/tools/go/ast/astutil"
)

const (
	simrtPath  = "github.com/basecomplextech/baselibrary/verifsim/simrt"
	simnetPath = "github.com/basecomplextech/baselibrary/verifsim/simnet"
)

var (
	mode   = flag.String("mode", "full", "full: all rewrites + yields; sync: only sync type substitution and channel seams; noyield: full without statement yields")
	dir    = flag.String("dir", "", "package directory")
	out    = flag.String("out", "", "output directory")
	base   = flag.Int("base", 1000, "first site id")
	label  = flag.String("label", "", "site name prefix (e.g. mpx)")
	pkgTag = flag.String("tag", "verif", "build tag on generated files")
	lenient = flag.Bool("lenient", false, "leave unsupported constructs untouched (pinned, reviewed dependency code only)")
)

type rewriter struct {
	fset     *token.FileSet
	file     *ast.File
	fname    string
	sites    *[]string
	needRT   bool
	needNet  bool
	skipComm map[ast.Node]bool
	errs     []string
	yields   bool
	syncOnly bool
	imports  map[string]string // local name -> path
	// blocks generated for mixed selects: no yields between the hoisted operands and the select itself
	noYieldBlocks []*ast.BlockStmt
}

func (r *rewriter) failf(n ast.Node, format string, args ...any) {
	pos := r.fset.Position(n.Pos())
	r.errs = append(r.errs, fmt.Sprintf("%s:%d: %s", pos.Filename, pos.Line, fmt.Sprintf(format, args...)))
}

func (r *rewriter) site(n ast.Node) ast.Expr {
	pos := r.fset.Position(n.Pos())
	name := fmt.Sprintf("%s/%s:%d", *label, filepath.Base(pos.Filename), pos.Line)
	*r.sites = append(*r.sites, name)
	id := *base + len(*r.sites) - 1
	return &ast.BasicLit{Kind: token.INT, Value: strconv.Itoa(id)}
}

func sel(pkg, name string) ast.Expr {
	return &ast.SelectorExpr{X: ast.NewIdent(pkg), Sel: ast.NewIdent(name)}
}

func (r *rewriter) rt(name string) ast.Expr {
	r.needRT = true
	return sel("simrt", name)
}

// isPkgSel reports whether e is `<pkg>.<name>` where pkg is the local name of import path.
func (r *rewriter) isPkgSel(e ast.Expr, path, name string) bool {
	s, ok := e.(*ast.SelectorExpr)
	if !ok {
		return false
	}
	id, ok := s.X.(*ast.Ident)
	if !ok || id.Obj != nil { // id.Obj != nil: a local object shadows the package name
		return false
	}
	if r.imports[id.Name] != path {
		return false
	}
	return name == "" || s.Sel.Name == name
}

func main() {
	flag.Parse()
	if *dir == "" || *out == "" {
		fmt.Fprintln(os.Stderr, "usage: instrument -dir D -out O")
		os.Exit(2)
	}
	entries, err := os.ReadDir(*dir)
	if err != nil {
		fatal(err)
	}
	if err := os.MkdirAll(*out, 0o755); err != nil {
		fatal(err)
	}
	var sites []string
	var pkgName string
	var allErrs []string
	var names []string
	for _, e := range entries {
		n := e.Name()
		if e.IsDir() || !strings.HasSuffix(n, ".go") || strings.HasSuffix(n, "_test.go") {
			continue
		}
		names = append(names, n)
	}
	sort.Strings(names)
	for _, n := range names {
		path := filepath.Join(*dir, n)
		fset := token.NewFileSet()
		f, err := parser.ParseFile(fset, path, nil, parser.ParseComments)
		if err != nil {
			fatal(err)
		}
		pkgName = f.Name.Name
		r := &rewriter{fset: fset, file: f, fname: path, sites: &sites, skipComm: map[ast.Node]bool{},
			yields: *mode == "full", syncOnly: *mode == "sync", imports: map[string]string{}}
		r.run()
		allErrs = append(allErrs, r.errs...)
		var buf bytes.Buffer
		// keep only directive-free output: drop all comments except the build constraint (none used here)
		f.Comments = nil
		cfg := printer.Config{Mode: printer.SourcePos | printer.UseSpaces | printer.TabIndent, Tabwidth: 8}
		if err := cfg.Fprint(&buf, fset, f); err != nil {
			fatal(err)
		}
		dst := filepath.Join(*out, n)
		if err := os.WriteFile(dst, buf.Bytes(), 0o644); err != nil {
			fatal(err)
		}
		fmt.Printf("%s\t%s\n", path, dst)
	}
	if len(allErrs) > 0 {
		for _, e := range allErrs {
			if *lenient {
				fmt.Fprintln(os.Stderr, "instrument: left untouched (lenient): "+e)
			} else {
				fmt.Fprintln(os.Stderr, "instrument: cannot rewrite soundly: "+e)
			}
		}
		if !*lenient {
			os.Exit(2)
		}
	}
	// site table
	if len(sites) > 0 {
		var b bytes.Buffer
		fmt.Fprintf(&b, "//go:build %s\n\npackage %s\n\nimport simrt %q\n\nfunc init() {\n\tsimrt.RegisterSites(%d, []string{\n", *pkgTag, pkgName, simrtPath, *base)
		for _, s := range sites {
			fmt.Fprintf(&b, "\t\t%q,\n", s)
		}
		fmt.Fprintf(&b, "\t})\n}\n")
		dst := filepath.Join(*out, "zz_verif_sites.go")
		if err := os.WriteFile(dst, b.Bytes(), 0o644); err != nil {
			fatal(err)
		}
		fmt.Printf("%s\t%s\n", filepath.Join(*dir, "zz_verif_sites.go"), dst)
	}
	fmt.Fprintf(os.Stderr, "instrument: %s: %d files, %d sites\n", *dir, len(names), len(sites))
}

func fatal(err error) {
	fmt.Fprintln(os.Stderr, "instrument:", err)
	os.Exit(2)
}

func (r *rewriter) run() {
	f := r.file
	for _, im := range f.Imports {
		p, _ := strconv.Unquote(im.Path.Value)
		name := filepath.Base(p)
		if strings.HasPrefix(name, "v") && len(name) > 1 && name[1] >= '0' && name[1] <= '9' {
			name = filepath.Base(filepath.Dir(p)) // math/rand/v2 -> rand
		}
		if im.Name != nil {
			name = im.Name.Name
		}
		r.imports[name] = p
	}
	if p, ok := r.imports["simrt"]; ok && p != simrtPath {
		r.failf(f, "file already imports something named simrt")
	}

	// Pass 1: select statements (before receives are rewritten).
	astutil.Apply(f, func(c *astutil.Cursor) bool {
		if s, ok := c.Node().(*ast.SelectStmt); ok {
			if repl := r.rewriteSelect(s); repl != nil {
				c.Replace(repl)
			}
		}
		return true
	}, nil)

	// Pass 2: everything else (post-order so children are rewritten first).
	astutil.Apply(f, nil, func(c *astutil.Cursor) bool {
		switch n := c.Node().(type) {
		case *ast.GoStmt:
			c.Replace(r.rewriteGo(n))
		case *ast.SendStmt:
			if r.skipComm[n] {
				return true
			}
			c.Replace(&ast.ExprStmt{X: &ast.CallExpr{Fun: r.rt("Send"), Args: []ast.Expr{r.site(n), n.Chan, n.Value}}})
		case *ast.AssignStmt:
			if len(n.Lhs) == 2 && len(n.Rhs) == 1 {
				if u, ok := n.Rhs[0].(*ast.UnaryExpr); ok && u.Op == token.ARROW && !r.skipComm[n] {
					n.Rhs[0] = &ast.CallExpr{Fun: r.rt("Recv2"), Args: []ast.Expr{r.site(u), u.X}}
				}
			}
		case *ast.UnaryExpr:
			if n.Op == token.ARROW {
				if r.skipComm[n] {
					return true
				}
				// `v, ok := <-ch` handled at the AssignStmt (parent visited after child): detect here
				if as, ok := c.Parent().(*ast.AssignStmt); ok && len(as.Lhs) == 2 && len(as.Rhs) == 1 {
					return true
				}
				if vs, ok := c.Parent().(*ast.ValueSpec); ok && len(vs.Names) == 2 && len(vs.Values) == 1 {
					r.failf(n, "var v, ok = <-ch is not supported")
					return true
				}
				c.Replace(&ast.CallExpr{Fun: r.rt("Recv"), Args: []ast.Expr{r.site(n), n.X}})
			}
		case *ast.RangeStmt:
			// range over a channel cannot be recognised without types; mpx/rpc only range over
			// slices, integers and functions. A `range x` whose x is syntactically a channel
			// expression (make(chan ..)/chan type conversion) is rejected.
			if ce, ok := n.X.(*ast.CallExpr); ok {
				if id, ok := ce.Fun.(*ast.Ident); ok && id.Name == "make" && len(ce.Args) > 0 {
					if _, ok := ce.Args[0].(*ast.ChanType); ok {
						r.failf(n, "range over channel")
					}
				}
			}
		case *ast.SelectorExpr:
			r.rewriteSelector(c, n)
		case *ast.CallExpr:
			r.rewriteCall(c, n)
		}
		return true
	})

	// Pass 3: yields.
	if r.yields {
		noYield := map[*ast.BlockStmt]bool{}
		for _, b := range r.noYieldBlocks {
			noYield[b] = true
		}
		ast.Inspect(f, func(n ast.Node) bool {
			switch b := n.(type) {
			case *ast.FuncDecl:
				if b.Body == nil || b.Name.Name == "debugPrint" || b.Name.Name == "debugString" {
					return false
				}
			case *ast.IfStmt:
				// `if debug { ... }` (a false constant in mpx): no pre-emption points inside, so that
				// turning the library's debug printing on in a scratch copy does not shift schedules
				if id, ok := b.Cond.(*ast.Ident); ok && id.Name == "debug" {
					return false
				}
			case *ast.SwitchStmt:
				noYield[b.Body] = true
			case *ast.TypeSwitchStmt:
				noYield[b.Body] = true
			case *ast.SelectStmt:
				noYield[b.Body] = true
			case *ast.BlockStmt:
				if !noYield[b] {
					b.List = r.withYields(b.List)
				}
			case *ast.CaseClause:
				b.Body = r.withYields(b.Body)
			case *ast.CommClause:
				b.Body = r.withYields(b.Body)
			}
			return true
		})
	}

	// Imports.
	if r.needRT && r.imports["simrt"] != simrtPath {
		astutil.AddImport(r.fset, f, simrtPath)
	}
	if r.needNet {
		astutil.AddImport(r.fset, f, simnetPath)
	}
	for name, path := range r.imports {
		switch path {
		case "sync", "net", "math/rand/v2", "math/rand", "runtime", "time":
			if !r.usesPkg(name) {
				astutil.DeleteImport(r.fset, f, path)
				astutil.DeleteNamedImport(r.fset, f, name, path)
			}
		}
	}
}

func (r *rewriter) usesPkg(name string) bool {
	used := false
	ast.Inspect(r.file, func(n ast.Node) bool {
		if s, ok := n.(*ast.SelectorExpr); ok {
			if id, ok := s.X.(*ast.Ident); ok && id.Name == name && id.Obj == nil {
				used = true
			}
		}
		return !used
	})
	return used
}

func (r *rewriter) withYields(list []ast.Stmt) []ast.Stmt {
	if len(list) == 0 {
		return list
	}
	out := make([]ast.Stmt, 0, 2*len(list))
	for _, s := range list {
		if s.Pos() == token.NoPos {
			out = append(out, s)
			continue
		}
		switch s.(type) {
		case *ast.DeclStmt, *ast.EmptyStmt:
			out = append(out, s)
			continue
		}
		y := &ast.ExprStmt{X: &ast.CallExpr{Fun: r.rt("Yield"), Args: []ast.Expr{r.site(s)}}}
		out = append(out, y, s)
	}
	return out
}

func (r *rewriter) rewriteSelector(c *astutil.Cursor, n *ast.SelectorExpr) {
	if r.isPkgSel(n, "sync", "") {
		switch n.Sel.Name {
		case "Mutex", "RWMutex", "WaitGroup", "Once":
			c.Replace(r.rt(n.Sel.Name))
		case "Locker":
		case "Cond", "NewCond", "Map", "Pool", "OnceFunc", "OnceValue", "OnceValues":
			r.failf(n, "sync.%s is not supported by the simulator", n.Sel.Name)
		}
	}
}

func (r *rewriter) rewriteCall(c *astutil.Cursor, n *ast.CallExpr) {
	if r.syncOnly {
		return
	}
	switch {
	case r.isPkgSel(n.Fun, "net", "Listen"):
		r.needNet = true
		n.Fun = sel("simnet", "Listen")
	case r.isPkgSel(n.Fun, "net", "Dial"), r.isPkgSel(n.Fun, "net", "DialTimeout"),
		r.isPkgSel(n.Fun, "net", "DialTCP"), r.isPkgSel(n.Fun, "net", "ListenTCP"),
		r.isPkgSel(n.Fun, "net", "FileListener"), r.isPkgSel(n.Fun, "net", "ListenPacket"):
		r.failf(n, "unsupported net entry point")
	case r.isPkgSel(n.Fun, "math/rand/v2", "IntN"), r.isPkgSel(n.Fun, "math/rand", "Intn"):
		n.Fun = r.rt("IntN")
	case r.isPkgSel(n.Fun, "math/rand/v2", ""), r.isPkgSel(n.Fun, "math/rand", ""):
		r.failf(n, "unsupported math/rand function")
	case r.isPkgSel(n.Fun, "crypto/rand", ""):
		r.failf(n, "crypto/rand in code under test")
	case r.isPkgSel(n.Fun, "time", "Sleep"):
		n.Fun = r.rt("Sleep")
	case r.isPkgSel(n.Fun, "time", "AfterFunc"):
		n.Fun = r.rt("AfterFunc")
	case r.isPkgSel(n.Fun, "runtime", "Gosched"):
		n.Fun = r.rt("ForceYield")
		n.Args = []ast.Expr{&ast.BasicLit{Kind: token.STRING, Value: `"gosched"`}}
	default:
		if s, ok := n.Fun.(*ast.SelectorExpr); ok && s.Sel.Name == "DialContext" && len(n.Args) == 3 {
			// (*net.Dialer).DialContext(ctx, network, addr): the build fails if the receiver is not a *net.Dialer
			r.needNet = true
			n.Fun = sel("simnet", "DialContext")
			n.Args = append([]ast.Expr{s.X}, n.Args...)
		}
	}
}

func (r *rewriter) rewriteGo(g *ast.GoStmt) ast.Stmt {
	call := g.Call
	site := r.site(g)
	if fl, ok := call.Fun.(*ast.FuncLit); ok && len(call.Args) == 0 {
		return &ast.ExprStmt{X: &ast.CallExpr{Fun: r.rt("GoSite"), Args: []ast.Expr{site, fl}}}
	}
	var stmts []ast.Stmt
	fn := call.Fun
	switch fn.(type) {
	case *ast.Ident:
	default:
		stmts = append(stmts, &ast.AssignStmt{Lhs: []ast.Expr{ast.NewIdent("verifF")}, Tok: token.DEFINE, Rhs: []ast.Expr{fn}})
		fn = ast.NewIdent("verifF")
	}
	var args []ast.Expr
	for i, a := range call.Args {
		switch x := a.(type) {
		case *ast.BasicLit:
			args = append(args, a)
			continue
		case *ast.Ident:
			if x.Name == "nil" || x.Name == "true" || x.Name == "false" {
				args = append(args, a)
				continue
			}
		}
		name := fmt.Sprintf("verifA%d", i)
		stmts = append(stmts, &ast.AssignStmt{Lhs: []ast.Expr{ast.NewIdent(name)}, Tok: token.DEFINE, Rhs: []ast.Expr{a}})
		args = append(args, ast.NewIdent(name))
	}
	inner := &ast.CallExpr{Fun: fn, Args: args, Ellipsis: call.Ellipsis}
	if call.Ellipsis != token.NoPos {
		inner.Ellipsis = 1
	}
	lit := &ast.FuncLit{Type: &ast.FuncType{Params: &ast.FieldList{}}, Body: &ast.BlockStmt{List: []ast.Stmt{&ast.ExprStmt{X: inner}}}}
	stmts = append(stmts, &ast.ExprStmt{X: &ast.CallExpr{Fun: r.rt("GoSite"), Args: []ast.Expr{site, lit}}})
	return &ast.BlockStmt{List: stmts}
}

// rewriteSelect returns the replacement statement, or nil to keep the select.
func (r *rewriter) rewriteSelect(s *ast.SelectStmt) ast.Stmt {
	var comms []*ast.CommClause
	var def *ast.CommClause
	for _, st := range s.Body.List {
		cc := st.(*ast.CommClause)
		if cc.Comm == nil {
			def = cc
		} else {
			comms = append(comms, cc)
		}
	}
	if len(comms) == 0 && def == nil {
		r.failf(s, "empty select blocks forever")
		return nil
	}
	if len(comms) == 1 && def != nil {
		// single non-blocking operation: deterministic, keep as is
		r.markSkip(comms[0].Comm)
		return nil
	}
	if len(comms) == 0 {
		return nil
	}
	// value-less receives only: the cheap path
	var chans []ast.Expr
	simple := true
	for _, cc := range comms {
		es, ok := cc.Comm.(*ast.ExprStmt)
		if !ok {
			simple = false
			break
		}
		u, ok := es.X.(*ast.UnaryExpr)
		if !ok || u.Op != token.ARROW {
			simple = false
			break
		}
		chans = append(chans, u.X)
	}
	if !simple {
		return r.rewriteSelectMixed(s, comms, def)
	}
	if r.syncOnly {
		// still needs the seam: blocking selects exist in baselibrary too
	}
	fn := "Select"
	if def != nil {
		fn = "SelectDefault"
	}
	args := append([]ast.Expr{r.site(s)}, chans...)
	sw := &ast.SwitchStmt{
		Switch: s.Select,
		Tag:    &ast.CallExpr{Fun: r.rt(fn), Args: args},
		Body:   &ast.BlockStmt{Lbrace: s.Body.Lbrace, Rbrace: s.Body.Rbrace},
	}
	for i, cc := range comms {
		sw.Body.List = append(sw.Body.List, &ast.CaseClause{
			Case: cc.Case,
			List: []ast.Expr{&ast.BasicLit{Kind: token.INT, Value: strconv.Itoa(i)}},
			Colon: cc.Colon,
			Body: cc.Body,
		})
	}
	if def != nil {
		sw.Body.List = append(sw.Body.List, &ast.CaseClause{Case: def.Case, Colon: def.Colon, Body: def.Body})
	} else {
		// keeps the statement terminating when every original case was
		sw.Body.List = append(sw.Body.List, &ast.CaseClause{Body: []ast.Stmt{&ast.ExprStmt{X: &ast.CallExpr{
			Fun: ast.NewIdent("panic"), Args: []ast.Expr{&ast.BasicLit{Kind: token.STRING, Value: `"simrt: unreachable select result"`}}}}}})
	}
	return sw
}

// rewriteSelectMixed handles selects with send cases and receives whose value is used:
//
//	select { case v, ok := <-a: A; case b <- x: B; case <-c: C }
//
// becomes
//
//	switch _i, _v, _ok := simrt.SelectMixed(site, false, simrt.RecvCase(a), simrt.SendCase(b, x), simrt.RecvCase(c)); _i {
//	case 0: v, ok := simrt.As(a, _v), _ok; A
//	case 1: B
//	case 2: C
//	}
//
// (channel operands are evaluated twice when their value is used: they must be side-effect free, which
// the rewriter checks syntactically: identifiers, selectors and call-free index expressions only).
func (r *rewriter) rewriteSelectMixed(s *ast.SelectStmt, comms []*ast.CommClause, def *ast.CommClause) ast.Stmt {
	id := func(n string) *ast.Ident { return ast.NewIdent(n) }
	hasDef := "false"
	if def != nil {
		hasDef = "true"
	}
	args := []ast.Expr{r.site(s), id(hasDef)}
	body := &ast.BlockStmt{Lbrace: s.Body.Lbrace, Rbrace: s.Body.Rbrace}
	// channel operands and send values are evaluated once, in source order, as a select does
	var hoist []ast.Stmt
	tmp := func(kind string, i int, e ast.Expr) *ast.Ident {
		n := fmt.Sprintf("_sim%s%d", kind, i)
		hoist = append(hoist, &ast.AssignStmt{Lhs: []ast.Expr{id(n)}, Tok: token.DEFINE, Rhs: []ast.Expr{e}})
		return id(n)
	}
	for i, cc := range comms {
		var pre []ast.Stmt
		switch c := cc.Comm.(type) {
		case *ast.SendStmt:
			ch, v := tmp("C", i, c.Chan), tmp("S", i, c.Value)
			args = append(args, &ast.CallExpr{Fun: r.rt("SendCase"), Args: []ast.Expr{ch, v}})
		case *ast.ExprStmt:
			u, ok := c.X.(*ast.UnaryExpr)
			if !ok || u.Op != token.ARROW {
				r.failf(cc, "select case is neither a send nor a receive")
				return nil
			}
			args = append(args, &ast.CallExpr{Fun: r.rt("RecvCase"), Args: []ast.Expr{tmp("C", i, u.X)}})
		case *ast.AssignStmt:
			if len(c.Rhs) != 1 {
				r.failf(cc, "select receive with several right-hand sides")
				return nil
			}
			u, ok := c.Rhs[0].(*ast.UnaryExpr)
			if !ok || u.Op != token.ARROW {
				r.failf(cc, "select case assignment is not a receive")
				return nil
			}
			ch := tmp("C", i, u.X)
			args = append(args, &ast.CallExpr{Fun: r.rt("RecvCase"), Args: []ast.Expr{ch}})
			rhs := []ast.Expr{&ast.CallExpr{Fun: r.rt("As"), Args: []ast.Expr{id(ch.Name), id("_simV")}}}
			if len(c.Lhs) == 2 {
				rhs = append(rhs, id("_simOK"))
			}
			pre = append(pre, &ast.AssignStmt{Lhs: c.Lhs, Tok: c.Tok, Rhs: rhs})
			if c.Tok == token.DEFINE {
				// keep the compiler quiet about variables the case body does not use
				for _, l := range c.Lhs {
					if li, ok := l.(*ast.Ident); ok && li.Name != "_" {
						pre = append(pre, &ast.AssignStmt{Lhs: []ast.Expr{id("_")}, Tok: token.ASSIGN, Rhs: []ast.Expr{id(li.Name)}})
					}
				}
			}
		default:
			r.failf(cc, "unsupported select case")
			return nil
		}
		body.List = append(body.List, &ast.CaseClause{
			Case: cc.Case, Colon: cc.Colon,
			List: []ast.Expr{&ast.BasicLit{Kind: token.INT, Value: strconv.Itoa(i)}},
			Body: append(pre, cc.Body...),
		})
	}
	if def != nil {
		body.List = append(body.List, &ast.CaseClause{Case: def.Case, Colon: def.Colon, Body: def.Body})
	} else {
		body.List = append(body.List, &ast.CaseClause{Body: []ast.Stmt{&ast.ExprStmt{X: &ast.CallExpr{
			Fun: ast.NewIdent("panic"), Args: []ast.Expr{&ast.BasicLit{Kind: token.STRING, Value: `"simrt: unreachable select result"`}}}}}})
	}
	list := append(hoist,
		&ast.AssignStmt{Lhs: []ast.Expr{id("_simI"), id("_simV"), id("_simOK")}, Tok: token.DEFINE, Rhs: []ast.Expr{&ast.CallExpr{Fun: r.rt("SelectMixed"), Args: args}}},
		&ast.AssignStmt{Lhs: []ast.Expr{id("_"), id("_")}, Tok: token.ASSIGN, Rhs: []ast.Expr{id("_simV"), id("_simOK")}},
		&ast.SwitchStmt{Switch: s.Select, Tag: id("_simI"), Body: body},
	)
	blk := &ast.BlockStmt{List: list}
	r.noYieldBlocks = append(r.noYieldBlocks, blk)
	return blk
}

func (r *rewriter) markSkip(st ast.Stmt) {
	r.skipComm[st] = true
	switch x := st.(type) {
	case *ast.ExprStmt:
		r.skipComm[x.X] = true
	case *ast.AssignStmt:
		for _, e := range x.Rhs {
			r.skipComm[e] = true
		}
	case *ast.SendStmt:
	}
}
