package simcheck

import (
	"bytes"
	"encoding/json"
	"fmt"
	"strings"
	"testing"
	"time"

	"github.com/basecomplextech/baselibrary/alloc"
	"github.com/basecomplextech/baselibrary/alloc/bytequeue"
	"github.com/basecomplextech/baselibrary/async"
	"github.com/basecomplextech/baselibrary/ref"
	"github.com/basecomplextech/baselibrary/status"
	"github.com/basecomplextech/baselibrary/verifsim/simnet"
	"github.com/basecomplextech/baselibrary/verifsim/simrt"
	"github.com/basecomplextech/spec"
	"github.com/basecomplextech/spec/proto/prpc"
	"github.com/basecomplextech/spec/rpc"
)

// rpc (C04): concurrent unary / oneway / streaming calls checked against a
// sequential specification keyed by call id.

type RpcCall struct {
	Kind       string `json:"kind"` // request | oneway | channel
	Client     int    `json:"client"`
	ReqSize    int    `json:"req_size"`
	Code       string `json:"code"` // status code the handler returns ("ok" for success)
	Msg        string `json:"msg"`
	ResultSize int    `json:"result_size"` // 0: nil result
	Panic      bool   `json:"panic"`
	DelayUs    int    `json:"delay_us"`
	Early      bool   `json:"early"` // the handler responds without consuming the client stream
	CliStream  []int  `json:"cli_stream"`
	SrvStream  []int  `json:"srv_stream"`
	CliEnd     bool   `json:"cli_end"`
	SrvEnd     bool   `json:"srv_end"`
	SkipRecv   bool   `json:"skip_recv"` // the client calls Response without reading the stream
	StartUs    int    `json:"start_us"`
	CancelUs   int    `json:"cancel_us,omitempty"` // the caller cancels its context after this long (0: never)
	Skip       bool   `json:"skip,omitempty"`      // channel kind: the handler returns SkipResponse (no response message)
	Probe      bool   `json:"probe,omitempty"`     // recovery probe: issued alone after everything else has ended (fault scenarios)
	// OpCtx: channel kind: every Send / SendEnd / Receive / Response of the caller runs under a deadline of
	// its own (1: a context the caller cancels after OpUs, 2: a timeout context); an operation that ends
	// by that deadline has done nothing and is repeated.
	OpCtx int `json:"op_ctx,omitempty"`
	OpUs  int `json:"op_us,omitempty"`
	// ExtraPolls: channel kind: after its Receive loop saw the end of the stream the caller polls Receive this
	// many more times (a drain loop, a defensive re-poll) before it asks for the response
	ExtraPolls int `json:"extra_polls,omitempty"`
	// ReqBuilder: the request is built with rpc.NewRequest (pooled builder state) and freed twice
	ReqBuilder bool `json:"req_builder,omitempty"`
	// OwnerFree: channel kind: another task of the caller (the owner of the channel: a watchdog, the goroutine
	// that opened the call) frees the channel while the first task is blocked inside Receive or Response (the
	// handler is still busy): the channel is reference counted for exactly this, the blocked operation still
	// gets its reply (only the result bytes are no longer valid, the status is)
	OwnerFree bool `json:"owner_free,omitempty"`
}

type RpcPlan struct {
	Env
	Clients []ClientPlan `json:"clients"` // kind: ondemand | auto
	Calls   []RpcCall    `json:"calls"`
	Faulty  bool         `json:"faulty"`
}

type rpcScn struct{}

func (rpcScn) Name() string     { return "rpc" }
func (rpcScn) Property() string { return "C04" }

var rpcCodes = []string{"ok", "ok", "ok", "ok", "error", "not_found", "forbidden", "unavailable", "timeout", "cancelled", "closed", "end",
	"external_error", "rpc_error", "app_custom_17", "ünïcode_cøde", "", "a_rather_long_application_defined_status_code_0123456789_0123456789", "parse_error", "wait", "rollback",
	// every code the status package defines goes through the client's code table at least now and then
	"test", "unauthorized", "redirect", "unsupported", "checksum_error", "concurrency_error", "skip_response_x"}
var rpcMsgs = []string{"", "x", "something failed", "ошибка: не найдено", strings.Repeat("long message ", 40), "line1\nline2\ttab \"quoted\""}

func genRpcPlan(g *simrt.Rng, tier string) *RpcPlan {
	p := &RpcPlan{Env: genEnv(g, tier)}
	nCli := 1 + g.IntN(3)
	for i := 0; i < nCli; i++ {
		p.Clients = append(p.Clients, ClientPlan{Kind: simrt.Pick(g, "ondemand", "ondemand", "auto")})
	}
	if p.Opt.ConnChannels == 0 && g.Bool(0.5) {
		p.Opt.ConnChannels = 1 + g.IntN(3)
	}
	maxCalls, maxStream := 16, 6
	if tier == "thorough" {
		maxCalls, maxStream = 40, 16
	}
	n := 1 + g.IntN(maxCalls)
	w := p.Opt.Window
	for i := 0; i < n; i++ {
		c := RpcCall{Client: g.IntN(nCli), ReqSize: sizeAlphabet(g, w, 3000)}
		c.Kind = simrt.Pick(g, "request", "request", "oneway", "channel", "channel")
		c.Code = rpcCodes[g.IntN(len(rpcCodes))]
		c.Msg = rpcMsgs[g.IntN(len(rpcMsgs))]
		if c.Code == "ok" {
			if g.Bool(0.7) {
				c.Msg = "" // most handlers succeed with the plain OK, some add a message to it
			}
			if g.Bool(0.8) {
				c.ResultSize = sizeAlphabet(g, w, 3000)
			}
		}
		c.Panic = g.Bool(0.08)
		if g.Bool(0.3) {
			c.DelayUs = simrt.Pick(g, 10, 1000, 30000)
		}
		if g.Bool(0.3) {
			c.StartUs = simrt.Pick(g, 10, 1000, 30000)
		}
		if c.Kind == "channel" {
			for k := g.IntN(maxStream + 1); k > 0; k-- {
				c.CliStream = append(c.CliStream, sizeAlphabet(g, w, 2000))
			}
			for k := g.IntN(maxStream + 1); k > 0; k-- {
				c.SrvStream = append(c.SrvStream, sizeAlphabet(g, w, 2000))
			}
			c.CliEnd = g.Bool(0.7)
			c.SrvEnd = g.Bool(0.3)
			c.Early = g.Bool(0.25)
			c.SkipRecv = g.Bool(0.25)
			c.Skip = g.Bool(0.1)
		}
		if c.Kind != "oneway" && g.Bool(0.12) {
			c.CancelUs = simrt.Pick(g, 1, 50, 2000, 40000)
			if g.Bool(0.5) && c.DelayUs < c.CancelUs {
				c.DelayUs = c.CancelUs * 2 // make sure the cancellation lands while the call waits
			}
		}
		if c.Kind == "channel" && g.Bool(0.2) {
			c.ExtraPolls = 1 + g.IntN(2)
		}
		c.ReqBuilder = g.Bool(0.3)
		if c.Kind == "channel" && len(c.CliStream) == 0 && c.DelayUs > 0 && !c.Early && c.OpCtx == 0 && c.CancelUs == 0 && g.Bool(0.3) {
			// (the caller goes straight to Response: a Receive that returns would drop the last reference)
			c.OwnerFree, c.SkipRecv, c.ExtraPolls = true, true, 0
		}
		if c.Kind == "channel" && c.CancelUs == 0 && !c.OwnerFree && g.Bool(0.15) {
			c.OpCtx = 1 + g.IntN(2)
			c.OpUs = simrt.Pick(g, 1, 50, 2000, 40000)
			if c.Code == "cancelled" || c.Code == "timeout" {
				c.Code = "unavailable" // a handler status the caller could not tell from its own deadline
			}
			if g.Bool(0.5) && c.DelayUs < c.OpUs {
				c.DelayUs = c.OpUs * 3 // the handler is still busy when the first deadlines expire
			}
		}
		p.Calls = append(p.Calls, c)
	}
	return p
}

func (rpcScn) Generate(g *simrt.Rng, tier string) any { return genRpcPlan(g, tier) }

func (rpcScn) Decode(raw json.RawMessage) (any, error) {
	p := &RpcPlan{}
	err := json.Unmarshal(raw, p)
	return p, err
}

// call history
type rpcCallState struct {
	starts      int // handler invocations
	handlerDone bool
	handlerSt   string
	cliDone     bool
	cliSt       status.Status
	cliOpened   bool
	srvGot      int // client stream messages the handler received
	cliGot      int // server stream messages the client received
	srvSawEnd   bool
	responded   bool
	reqOK       bool
	ownerFreed  bool // the channel was freed by its owner task while the caller was blocked in Response
}

type rpcRun struct {
	p      *RpcPlan
	cs     []*rpcCallState
	bg     async.CancelContext
	log    *recLogger
	active int
	net    *simnet.Net
	mon    *wireMon

	errsAtTeardown, panicsAtTeardown int
	tornDown                         bool
	stranded                         int
	opExpired                        int // caller operations repeated after their own deadline
	extra                            func(r *rpcRun, clients []rpc.Client, srv rpc.Server)
	tap                              func(conn, dir int, data []byte)
	postNet                          func(net *simnet.Net)
	leaked                           []string
}

const (
	dirReq = 0
	dirRes = 1
	dirCS  = 2 // client stream
	dirSS  = 3 // server stream
)

func (r *rpcRun) reqBytes(id int) []byte { return payload(r.p.Nonce, id, dirReq, 0, 0, max(r.p.Calls[id].ReqSize, hdrSize)) }
func (r *rpcRun) resBytes(id int) []byte { return payload(r.p.Nonce, id, dirRes, 0, 0, r.p.Calls[id].ResultSize) }
func (r *rpcRun) streamBytes(id, dir, k, size int) []byte {
	return payload(r.p.Nonce, id, dir, 0, k, size)
}

func (r *rpcRun) buildRequest(id int) (prpc.Request, func()) {
	if r.p.Calls[id].ReqBuilder {
		// the library's own request builder (pooled state); its Free is idempotent by design, and callers
		// lean on that: a deferred Free plus an early one
		rq := rpc.NewRequest()
		call := rq.Add(fmt.Sprintf("m%d", id))
		in := call.Input()
		in.Field(1).Uint32(uint32(id))
		in.Field(2).Bytes(r.reqBytes(id))
		if err := in.End(); err != nil {
			panic(err)
		}
		if err := call.End(); err != nil {
			panic(err)
		}
		req, st := rq.Build()
		if !st.OK() {
			r.fail("C18-differs", "call %d: building a request with rpc.NewRequest failed: %s", id, stName(st))
		}
		return req, func() {
			rq.Free()
			rq.Free()
		}
	}
	buf := alloc.NewBuffer()
	w := prpc.NewRequestWriterBuffer(buf)
	calls := w.Calls()
	call := calls.Add()
	call.Method(fmt.Sprintf("m%d", id))
	in := call.Input()
	in.Field(1).Uint32(uint32(id))
	in.Field(2).Bytes(r.reqBytes(id))
	if err := in.End(); err != nil {
		panic(err)
	}
	if err := call.End(); err != nil {
		panic(err)
	}
	if err := calls.End(); err != nil {
		panic(err)
	}
	req, err := w.Build()
	if err != nil {
		panic(err)
	}
	return req, buf.Free
}

func (r *rpcRun) fail(rule, f string, a ...any) {
	simrt.Fail(rule, f, a...)
}

// handle is the server's rpc.Handler.
func (r *rpcRun) handle(ctx rpc.Context, ch rpc.ServerChannel) (ref.R[[]byte], status.Status) {
	hbAcquire()
	defer hbRelease()
	r.active++
	defer func() { r.active-- }()
	req, st := ch.Request(ctx)
	if !st.OK() {
		r.fail("C04-request-lost", "handler could not read its request: %s", stName(st))
	}
	calls := req.Calls()
	if calls.Len() != 1 {
		r.fail("C04-corrupt", "request with %d calls", calls.Len())
	}
	call := calls.Get(0)
	id := int(call.Input().Uint32(1))
	if id >= len(r.cs) || call.Method().Unwrap() != fmt.Sprintf("m%d", id) {
		r.fail("C04-corrupt", "request names call %d / method %q which this run never issued", id, call.Method().Unwrap())
	}
	c := r.p.Calls[id]
	s := r.cs[id]
	s.starts++
	simrt.Logf("call%d handler start #%d", id, s.starts)
	if s.starts > 1 && !c.Probe {
		r.fail("C04-handler-twice", "call %d reached the handler %d times", id, s.starts)
	}
	if got := call.Input().Bytes(2); !bytes.Equal(got, r.reqBytes(id)) {
		r.fail("C04-request-content", "call %d: the handler received request bytes that differ from what the client passed (%d bytes)", id, len(got))
	}
	defer func() { s.handlerDone = true }()

	if c.DelayUs > 0 {
		hSleep(time.Duration(c.DelayUs) * time.Microsecond)
	}
	if c.Kind == "channel" {
		var g group
		g.goTask(fmt.Sprintf("call%d-ssend", id), func() {
			for k, size := range c.SrvStream {
				st := ch.Send(ctx, r.streamBytes(id, dirSS, k, size))
				if !st.OK() {
					simrt.Logf("call%d server stream #%d -> %s", id, k, stName(st))
					if !r.p.Faulty && c.CancelUs == 0 {
						r.fail("C04-stream-send", "call %d: server stream message #%d could not be sent: %s", id, k, stName(st))
					}
					return
				}
			}
			if c.SrvEnd {
				ch.SendEnd(ctx)
			}
		})
		if !c.Early {
			for c.CliEnd || s.srvGot < len(c.CliStream) {
				msg, st := ch.Receive(ctx)
				if !st.OK() {
					if st.Code == status.CodeEnd {
						s.srvSawEnd = true
					}
					break
				}
				if s.srvGot >= len(c.CliStream) || !bytes.Equal(msg, r.streamBytes(id, dirCS, s.srvGot, c.CliStream[s.srvGot])) {
					r.fail("C04-stream-content", "call %d: the handler's stream message #%d is not the message the client sent (%d bytes)", id, s.srvGot, len(msg))
				}
				s.srvGot++
			}
			if !r.p.Faulty && c.CancelUs == 0 && s.srvGot != len(c.CliStream) {
				r.fail("C04-stream-incomplete", "call %d: the handler read until the end of the client stream and got %d of %d messages", id, s.srvGot, len(c.CliStream))
			}
		}
		g.wait("rpc.handler.join")
	}
	s.responded = true
	if c.Panic {
		simrt.Logf("call%d handler panics", id)
		s.handlerSt = "panic"
		panic(simrt.PanicSentinel{Tag: fmt.Sprintf("call%d", id)})
	}
	if c.Kind == "oneway" || c.Skip {
		s.handlerSt = "skip"
		return nil, rpc.SkipResponse
	}
	stOut := status.New(status.Code(c.Code), c.Msg)
	s.handlerSt = stName(stOut)
	simrt.Logf("call%d handler returns %s", id, s.handlerSt)
	if c.Code != "ok" {
		return nil, stOut
	}
	if c.ResultSize == 0 {
		return nil, stOut
	}
	buf := alloc.AcquireBuffer()
	w := spec.NewValueWriterBuffer(buf)
	w.Bytes(r.resBytes(id))
	b, err := w.Build()
	if err != nil {
		panic(err)
	}
	return ref.NewFreer(b, buf), stOut
}

// checkResult compares what the caller got with what the handler produced for that call.
func (r *rpcRun) checkResult(id int, val spec.Value, st status.Status) {
	c := r.p.Calls[id]
	s := r.cs[id]
	s.cliSt = st
	simrt.Logf("call%d client result: %s (%d bytes)", id, stName(st), len(val))
	if st.OK() {
		if s.starts != 1 && !c.Probe {
			r.fail("C04-ok-without-handler", "call %d returned OK but its handler ran %d times", id, s.starts)
		}
		if c.Panic || c.Code != "ok" || c.Skip {
			r.fail("C04-false-ok", "call %d returned OK but its handler produced %q (panic=%v)", id, c.Code, c.Panic)
		}
		if st.Message != c.Msg && !c.Probe {
			r.fail("C04-status", "call %d: handler returned code=\"ok\" message=%q, caller received code=\"ok\" message=%q", id, c.Msg, st.Message)
		}
		if s.ownerFreed {
			return // the result bytes are valid until the channel is freed: only the status can be judged
		}
		if c.ResultSize == 0 {
			if len(val) != 0 {
				r.fail("C04-result", "call %d: handler returned no result but the caller got %d bytes", id, len(val))
			}
			return
		}
		got, err := val.BytesErr()
		if err != nil || !bytes.Equal(got, r.resBytes(id)) {
			r.fail("C04-result", "call %d: the caller's result differs from what its handler returned (%d bytes, err=%v)", id, len(got), err)
		}
		return
	}
	if r.p.Faulty {
		return
	}
	if c.Panic || c.Skip {
		return // any non-OK status
	}
	if c.CancelUs > 0 && st.Code == status.CodeCancelled {
		return // the caller's own cancellation
	}
	if c.Code == "ok" {
		r.fail("C04-status", "call %d: the handler succeeded but the caller got %s", id, stName(st))
	}
	if string(st.Code) != c.Code || st.Message != c.Msg {
		r.fail("C04-status", "call %d: handler returned code=%q message=%q, caller received code=%q message=%q", id, c.Code, c.Msg, st.Code, st.Message)
	}
	if len(val) != 0 {
		r.fail("C04-result", "call %d: non-OK status came with %d result bytes", id, len(val))
	}
}

func (r *rpcRun) clientCall(id int, cl rpc.Client) {
	c := r.p.Calls[id]
	s := r.cs[id]
	defer func() { s.cliDone = true }()
	if c.StartUs > 0 {
		hSleep(time.Duration(c.StartUs) * time.Microsecond)
	}
	req, free := r.buildRequest(id)
	defer free()
	ctx := async.Context(r.bg)
	if c.CancelUs > 0 {
		cc := async.NewContext()
		defer cc.Free()
		ctx = cc
		hGo(fmt.Sprintf("call%d-cancel", id), func() {
			hSleep(time.Duration(c.CancelUs) * time.Microsecond)
			simrt.Logf("call%d caller cancels", id)
			cc.Cancel()
		})
	}
	switch c.Kind {
	case "request":
		res, st := cl.Request(ctx, req)
		var val spec.Value
		if res != nil {
			val = res.Unwrap()
		}
		r.checkResult(id, val, st)
		if res != nil {
			res.Release()
		}
	case "oneway":
		st := cl.RequestOneway(r.bg, req)
		s.cliSt = st
		simrt.Logf("call%d oneway -> %s", id, stName(st))
		if !st.OK() && !r.p.Faulty {
			r.fail("C04-oneway", "call %d: RequestOneway on a healthy connection returned %s", id, stName(st))
		}
		s.reqOK = st.OK()
	case "channel":
		ch, st := cl.Channel(ctx, req)
		if !st.OK() {
			s.cliSt = st
			simrt.Logf("call%d channel open -> %s", id, stName(st))
			if !r.p.Faulty && !(c.CancelUs > 0 && st.Code == status.CodeCancelled) {
				r.fail("C04-open", "call %d: Channel on a healthy connection returned %s", id, stName(st))
			}
			return
		}
		s.cliOpened = true
		var g group
		if c.OwnerFree {
			g.goTask(fmt.Sprintf("call%d-owner", id), func() {
				// at a quiescent instant the first task is parked inside Receive/Response, holding its reference
				hWaitQuiescent("rpc.owner-free")
				if !s.cliDone && !s.responded {
					simrt.Logf("call%d owner frees the channel", id)
					s.ownerFreed = true
					ch.Free()
				}
			})
		}
		// op runs one operation of the caller under its per-operation deadline, repeating it while it
		// ends by that deadline alone
		op := func(what string, f func(ctx async.Context) status.Status) status.Status {
			if c.OpCtx == 0 {
				return f(ctx)
			}
			us := c.OpUs
			for {
				d := time.Duration(us) * time.Microsecond
				var own async.Context
				if c.OpCtx == 1 {
					cc := async.NextContext(ctx)
					hGo(fmt.Sprintf("call%d-%s-cancel", id, what), func() {
						hSleep(d)
						cc.Cancel()
					})
					own = cc
				} else {
					own = async.NextTimeoutContext(ctx, d)
				}
				st := f(own)
				expired := own.Done()
				own.Free()
				if !st.OK() && expired && !ctx.Done() && (st.Code == status.CodeCancelled || st.Code == status.CodeTimeout) {
					r.opExpired++
					if us < 200_000 {
						us = us*2 + 1
					}
					continue
				}
				return st
			}
		}
		g.goTask(fmt.Sprintf("call%d-csend", id), func() {
			for k, size := range c.CliStream {
				b := r.streamBytes(id, dirCS, k, size)
				st := op("send", func(ctx async.Context) status.Status { return ch.Send(ctx, b) })
				if !st.OK() {
					simrt.Logf("call%d client stream #%d -> %s", id, k, stName(st))
					// the server may respond early and close the call: later sends then fail by design
					return
				}
			}
			if c.CliEnd {
				op("sendend", func(ctx async.Context) status.Status { return ch.SendEnd(ctx) })
			}
		})
		cut := false
		if !c.SkipRecv {
			for {
				var msg []byte
				st := op("recv", func(ctx async.Context) (st status.Status) { msg, st = ch.Receive(ctx); return st })
				if !st.OK() {
					if st.Code != status.CodeEnd {
						cut = true // the stream did not reach its end marker (cancelled / failed call)
					}
					break
				}
				if s.cliGot >= len(c.SrvStream) || !bytes.Equal(msg, r.streamBytes(id, dirSS, s.cliGot, c.SrvStream[s.cliGot])) {
					r.fail("C04-stream-content", "call %d: the caller's stream message #%d is not the message its handler sent (%d bytes)", id, s.cliGot, len(msg))
				}
				s.cliGot++
			}
			if !r.p.Faulty && !cut && !c.Skip && s.cliGot != len(c.SrvStream) {
				r.fail("C04-stream-incomplete", "call %d: the caller read the stream to its end and got %d of %d messages before the end marker", id, s.cliGot, len(c.SrvStream))
			}
			for k := 0; k < c.ExtraPolls && !cut; k++ {
				if msg, st := ch.Receive(ctx); st.OK() && !r.p.Faulty {
					r.fail("C04-stream-content", "call %d: a Receive after the end of the stream returned another message (%d bytes)", id, len(msg))
				}
			}
		}
		var val spec.Value
		st = op("response", func(ctx async.Context) (st status.Status) { val, st = ch.Response(ctx); return st })
		r.checkResult(id, val, st)
		g.wait("rpc.client.join")
		ch.Free()
	}
}

func (rpcScn) Run(t *testing.T, seed uint64, plan any, o RunOpts) *Report {
	return runRpc(t, seed, plan.(*RpcPlan), o, nil)
}

func runRpc(t *testing.T, seed uint64, p *RpcPlan, o RunOpts, extra func(r *rpcRun, clients []rpc.Client, srv rpc.Server)) *Report {
	return runRpcX(t, seed, p, o, func(r *rpcRun) { r.extra = extra })
}

func runRpcX(t *testing.T, seed uint64, p *RpcPlan, o RunOpts, setup func(r *rpcRun)) *Report {
	r := &rpcRun{p: p}
	if setup != nil {
		setup(r)
	}
	extra := r.extra
	for range p.Calls {
		r.cs = append(r.cs, &rpcCallState{})
	}
	cfg := p.Env.simConfig(seed)
	o.apply(&cfg)
	cfg.OnIdle = func() { r.stranded = bytequeue.VerifStranded() }
	res := simrt.Run(t, cfg, func() { r.main(extra) })
	rep := newReport(res)
	if r.net != nil {
		rep.addNet(r.net)
	}
	rep.count("calls", int64(len(p.Calls)))
	rep.count("probe:caller_operations_repeated_after_own_deadline", int64(r.opExpired))
	for _, c := range p.Calls {
		rep.count("kind:"+c.Kind, 1)
		if c.Panic {
			rep.count("probe:handler_panics", 1)
		}
		if c.Code != "ok" {
			rep.count("probe:non_ok_statuses", 1)
		}
	}
	if rep.Inconclusive == "sim-cap" && len(rep.Violations) == 0 && !p.Faulty && r.net != nil && res.SimTime-r.net.LastIO > 10*time.Minute {
		// callers with deadlines of their own keep the clock running: a stall is no deadlock for the scheduler
		rep.Inconclusive = ""
		if r.stranded > 0 {
			rep.violate("F1-bytequeue-lost-wakeup", "stall with %d byte queue(s) holding unread data in a later block while the reader is parked without a wake-up token; live tasks: %v", r.stranded, res.Blocked)
		} else {
			rep.violate("C04-deadlock", "calls did not complete: the last byte moved at %v and callers kept repeating their operations until %v; live tasks: %v", r.net.LastIO, res.SimTime, res.Blocked)
		}
		return rep
	}
	if rep.Inconclusive != "" || len(rep.Violations) > 0 {
		return rep
	}
	if res.Deadlock {
		if r.stranded > 0 {
			rep.violate("F1-bytequeue-lost-wakeup", "deadlock with %d byte queue(s) holding unread data in a later block while the reader is parked without a wake-up token; blocked: %v", r.stranded, res.Blocked)
			return rep
		}
		if p.Faulty {
			rep.violate("C09-waiter-not-released", "after the transport failure some call never returned: blocked: %v", res.Blocked)
			return rep
		}
		rep.violate("C04-deadlock", "calls did not complete: blocked: %v", res.Blocked)
		return rep
	}
	if !p.Faulty {
		for id, s := range r.cs {
			c := p.Calls[id]
			if !s.cliDone {
				rep.violate("C04-unfinished", "call %d (%s) never returned to its caller", id, c.Kind)
				continue
			}
			if s.starts != 1 && !(c.CancelUs > 0 && s.starts == 0) {
				rep.violate("C04-handler-count", "call %d (%s) reached the handler %d times", id, c.Kind, s.starts)
			}
		}
		if !r.tornDown {
			r.errsAtTeardown, r.panicsAtTeardown = len(r.log.errors), len(res.Panics)
		}
		for _, l := range r.log.errors[:min(r.errsAtTeardown, len(r.log.errors))] {
			if strings.Contains(l, "RPC server error") || strings.Contains(l, "RPC client request error") {
				continue // the library logs the error statuses that handlers return: by design
			}
			rep.violate("C06-library-error", "the library logged an error on a healthy run: %s", trunc(l, 300))
			break
		}
		for _, pn := range res.Panics[:min(r.panicsAtTeardown, len(res.Panics))] {
			rep.violate("C06-library-panic", "the library panicked on a healthy run: %s", trunc(pn, 600))
			break
		}
		// oneway calls produce no response on the wire
		r.checkOneway(rep)
	}
	return rep
}

// checkOneway decodes the recorded streams and verifies that no payload travelled back on
// the channel of a oneway call.
func (r *rpcRun) checkOneway(rep *Report) {
	if r.mon == nil {
		return
	}
	for _, pr := range r.net.Pairs() {
		c2s, _, err := r.mon.decodeAll(pr.ID, 0)
		if err != nil {
			continue
		}
		oneway := map[[16]byte]int{}
		for _, f := range c2s {
			if f.Code != 10 { // channel open
				continue
			}
			msg, _, err := prpc.ParseMessage(f.Data)
			if err != nil || msg.Type() != prpc.MessageType_Request {
				continue
			}
			calls := msg.Req().Calls()
			if calls.Len() != 1 {
				continue
			}
			id := int(calls.Get(0).Input().Uint32(1))
			if id < len(r.p.Calls) && r.p.Calls[id].Kind == "oneway" && !r.p.Calls[id].Panic {
				var k [16]byte
				copy(k[:8], f.ID[0][:])
				copy(k[8:], f.ID[1][:])
				oneway[k] = id
			}
		}
		if len(oneway) == 0 {
			continue
		}
		s2c, _, err := r.mon.decodeAll(pr.ID, 1)
		if err != nil {
			continue
		}
		for _, f := range s2c {
			var k [16]byte
			copy(k[:8], f.ID[0][:])
			copy(k[8:], f.ID[1][:])
			if id, ok := oneway[k]; ok && len(f.Data) > 0 {
				rep.violate("C04-oneway-response", "oneway call %d: the server sent %d payload bytes back on its channel", id, len(f.Data))
				return
			}
		}
		rep.count("probe:oneway_channels_checked_on_wire", int64(len(oneway)))
	}
}

func (r *rpcRun) main(extra func(r *rpcRun, clients []rpc.Client, srv rpc.Server)) {
	p := r.p
	r.net = p.Env.install()
	r.mon = newWireMon(false)
	r.net.Tap = r.mon.feed
	if r.tap != nil {
		mon, tap := r.mon, r.tap
		r.net.Tap = func(c, d int, b []byte) { mon.feed(c, d, b); tap(c, d, b) }
	}
	r.log = newRecLogger()
	r.bg = async.NewContext()
	opts := p.Opt.options()
	srv := rpc.NewServer(simAddr, rpc.HandleFunc(r.handle), r.log, opts)
	srv.Start()
	waitFlag(srv.Listening())
	var clients []rpc.Client
	var clientModes []string
	for _, cp := range p.Clients {
		clientModes = append(clientModes, cp.Kind)
		mode := rpc.ClientMode_OnDemand
		if cp.Kind == "auto" {
			mode = rpc.ClientMode_AutoConnect
		}
		clients = append(clients, rpc.NewClient(simAddr, mode, r.log, opts))
	}
	if extra != nil {
		extra(r, clients, srv)
	}
	var g group
	for id := range p.Calls {
		id := id
		if p.Calls[id].Probe {
			continue
		}
		cl := clients[p.Calls[id].Client%len(clients)]
		g.goTask(fmt.Sprintf("call%d", id), func() { r.clientCall(id, cl) })
	}
	g.wait("rpc.join-calls")
	if p.Faulty {
		// after the fault: every client must serve a fresh call (the listener is up)
		hWaitCond("rpc.handlers-released", func() bool { return r.active == 0 })
		for id := range p.Calls {
			if !p.Calls[id].Probe {
				continue
			}
			cl := clients[p.Calls[id].Client%len(clients)]
			if clientModes[p.Calls[id].Client%len(clients)] == "auto" {
				bound := time.Duration(p.Opt.DialTimeoutMs)*time.Millisecond + 3*time.Second
				if !waitFlagFor(cl.Connected(), bound) {
					simrt.Fail("C09-no-reconnect", "the auto-connect rpc client is not connected %v after the fault although the server is listening", bound)
				}
			}
			r.probeCall(id, cl)
		}
	}
	// every issued call's handler must have run (oneway handlers may still be on their way)
	hWaitCond("rpc.join-handlers", func() bool {
		if r.p.Faulty {
			return r.active == 0
		}
		for id, s := range r.cs {
			if !s.handlerDone && r.p.Calls[id].CancelUs == 0 {
				return false
			}
		}
		return r.active == 0
	})
	// a cancelled call's request may still be on its way
	for i := 0; i < 3; i++ {
		hWaitQuiescent("rpc.settle")
		hSleep(100 * time.Millisecond)
	}
	hWaitCond("rpc.join-handlers2", func() bool { return r.active == 0 })
	if r.postNet != nil {
		r.postNet(r.net)
	}
	r.errsAtTeardown, r.panicsAtTeardown = len(r.log.errors), simrt.PanicCount()
	r.tornDown = true
	for _, cl := range clients {
		cl.Close()
	}
	simrt.Recv(0, srv.Stop())
	hWaitQuiescent("rpc.teardown")
	r.bg.Cancel()
	hWaitQuiescent("rpc.teardown2")
	if r.p.Faulty {
		hSleep(30 * time.Second)
		hWaitQuiescent("rpc.teardown3")
		r.leaked = simrt.LiveTasks()
	}
}

func (rpcScn) Shrink(plan any) []any { return shrinkRpc(plan.(*RpcPlan)) }

func shrinkRpc(p *RpcPlan) []any {
	clone := func() *RpcPlan {
		b, _ := json.Marshal(p)
		q := &RpcPlan{}
		json.Unmarshal(b, q)
		return q
	}
	var out []any
	if len(p.Calls) > 1 {
		q := clone()
		q.Calls = q.Calls[:len(q.Calls)/2]
		out = append(out, q)
		q = clone()
		q.Calls = q.Calls[len(q.Calls)/2:]
		out = append(out, q)
		for i := range p.Calls {
			q := clone()
			q.Calls = append(q.Calls[:i], q.Calls[i+1:]...)
			out = append(out, q)
		}
	}
	if len(p.Clients) > 1 {
		q := clone()
		q.Clients = q.Clients[:1]
		out = append(out, q)
	}
	for i, c := range p.Calls {
		if len(c.CliStream) > 0 || len(c.SrvStream) > 0 {
			q := clone()
			q.Calls[i].CliStream = c.CliStream[:len(c.CliStream)/2]
			q.Calls[i].SrvStream = c.SrvStream[:len(c.SrvStream)/2]
			out = append(out, q)
		}
		if c.DelayUs > 0 || c.StartUs > 0 {
			q := clone()
			q.Calls[i].DelayUs, q.Calls[i].StartUs = 0, 0
			out = append(out, q)
		}
		if c.ReqSize > 32 || c.ResultSize > 32 {
			q := clone()
			q.Calls[i].ReqSize, q.Calls[i].ResultSize = min(c.ReqSize, 17), min(c.ResultSize, 17)
			out = append(out, q)
		}
	}
	out = append(out, shrinkEnv(p, func(q any) *Env { return &q.(*RpcPlan).Env }, func() any { return clone() })...)
	return out
}

// probeCall issues the recovery probe: a plain unary call that must succeed (a second
// attempt is allowed when the first one met a connection that was still dying).
func (r *rpcRun) probeCall(id int, cl rpc.Client) {
	s := r.cs[id]
	for attempt := 0; attempt < 2; attempt++ {
		req, free := r.buildRequest(id)
		s.starts = 0
		res, st := cl.Request(r.bg, req)
		free()
		simrt.Logf("probe call%d attempt %d -> %s", id, attempt, stName(st))
		if st.OK() {
			r.checkResult(id, res.Unwrap(), st)
			res.Release()
			s.cliDone = true
			return
		}
		if res != nil {
			res.Release()
		}
		if attempt == 1 {
			simrt.Fail("C09-no-recovery", "a fresh unary call after the fault failed twice although the server is reachable: %s", stName(st))
		}
	}
}
