package simcheck

import (
	"encoding/json"
	"fmt"
	"testing"
	"time"

	"github.com/basecomplextech/baselibrary/alloc/bytequeue"
	"github.com/basecomplextech/baselibrary/async"
	"github.com/basecomplextech/baselibrary/status"
	"github.com/basecomplextech/baselibrary/verifsim/simnet"
	"github.com/basecomplextech/baselibrary/verifsim/simrt"
	"github.com/basecomplextech/spec/mpx"
)

const simAddr = "sim-server:1"

// endpoint is one client-side connection source.
type endpoint struct {
	kind   string
	conn   mpx.Conn
	client mpx.Client
}

func (e *endpoint) open(ctx async.Context) (mpx.Channel, status.Status) {
	if e.conn != nil {
		return e.conn.Channel(ctx)
	}
	return e.client.Channel(ctx)
}

func (e *endpoint) close() {
	if e.conn != nil {
		e.conn.Close()
	}
	if e.client != nil {
		e.client.Close()
	}
}

// flowMain runs a FlowPlan: server, endpoints, channels, teardown.
func (r *flowRun) flowMain(extra func(net *simnet.Net, eps []*endpoint)) {
	p := r.plan
	net := p.Env.install()
	r.log = newRecLogger()
	r.bg = async.NewContext()
	opts := p.Opt.options()

	r.startServer()

	var eps []*endpoint
	for i, cp := range p.Clients {
		ep := &endpoint{kind: cp.Kind}
		switch cp.Kind {
		case "connect":
			c, st := mpx.Connect(r.bg, simAddr, r.log, opts)
			if !st.OK() {
				simrt.Fail("C03-connect-failed", "mpx.Connect #%d to a listening server failed: %s", i, stName(st))
			}
			ep.conn = c
		case "auto":
			ep.client = mpx.NewClient(simAddr, mpx.ClientMode_AutoConnect, r.log, opts)
		default:
			ep.client = mpx.NewClient(simAddr, mpx.ClientMode_OnDemand, r.log, opts)
		}
		eps = append(eps, ep)
	}
	if extra != nil {
		extra(net, eps)
	}

	var g group
	for _, cs := range r.chans {
		cs := cs
		ep := eps[cs.plan.Client%len(eps)]
		g.goTask(fmt.Sprintf("ch%d", cs.idx), func() { r.runChannelClient(cs, ep.open) })
	}
	g.wait("flow.main.join-clients")
	// every opened channel's handler must have run to completion
	hWaitCond("flow.main.join-handlers", func() bool {
		if r.plan.Faulty {
			return r.active == 0
		}
		for _, cs := range r.chans {
			if cs.opened && cs.d[0].sendTriedAny() && !cs.srvDone {
				return false
			}
		}
		return true
	})
	simrt.Logf("main: all channels done")
	if r.beforePost != nil {
		r.beforePost(net)
	}
	if !r.srvUp {
		r.startServer()
	}
	if r.post != nil {
		r.post(net, eps)
	}
	r.teardown(r.srv, eps)
}

func (r *flowRun) startServer() {
	r.srv = mpx.NewServer(simAddr, mpx.HandleFunc(r.handler), r.log, r.plan.Opt.options())
	r.srv.Start()
	waitFlag(r.srv.Listening())
	r.srvUp = true
}

// crashServer stops the server and resets its connections (a process that went away).
func (r *flowRun) crashServer(net *simnet.Net) {
	simrt.Recv(0, r.srv.Stop())
	for _, pr := range net.Pairs() {
		if !pr.IsReset && !pr.S.Closed() {
			pr.Reset("server-crash")
		}
	}
	r.srvUp = false
}

func (d *dirState) sendTriedAny() bool {
	for _, t := range d.sendTried {
		if t {
			return true
		}
	}
	return false
}

func (r *flowRun) teardown(srv mpx.Server, eps []*endpoint) {
	r.errorsAtTeardown = len(r.log.errors)
	r.panicsAtTeardown = simrt.PanicCount()
	r.tornDown = true
	if !r.plan.Faulty {
		// no connection may have been closed by anything the channels did
		for _, p := range simnet.Cur().Pairs() {
			if p.Tag == "raw" {
				continue
			}
			if p.C.Dead() || p.S.Dead() {
				simrt.Fail("C06-conn-closed", "connection %d was closed before the harness closed it (client end dead=%v, server end dead=%v): ending channels must not affect the connection", p.ID, p.C.Dead(), p.S.Dead())
			}
		}
		for _, ep := range eps {
			if ep.conn != nil && ep.conn.Closed().IsSet() {
				simrt.Fail("C06-conn-closed", "a connection reports Closed before the harness closed it")
			}
		}
	}
	for _, ep := range eps {
		ep.close()
	}
	simrt.Recv(0, srv.Stop())
	hWaitQuiescent("flow.teardown")
	r.bg.Cancel()
	hWaitQuiescent("flow.teardown2")
	if r.plan.Faulty {
		// let keep-alives, back-offs and dial timeouts run out, then nothing of the system may be left
		hSleep(30 * time.Second)
		hWaitQuiescent("flow.teardown3")
		r.leaked = simrt.LiveTasks()
	}
}

// ---------------------------------------------------------------- scenario: mpxflow (C03)

type mpxflowScn struct{}

func (mpxflowScn) Name() string     { return "mpxflow" }
func (mpxflowScn) Property() string { return "C03" }

func genMsgs(g *simrt.Rng, n int, window int, maxSize int, two bool, firstHdr bool) []Msg {
	var out []Msg
	for i := 0; i < n; i++ {
		m := Msg{Size: sizeAlphabet(g, window, maxSize)}
		if two {
			m.Sender = g.IntN(2)
			if m.Size < hdrSize {
				m.Size = hdrSize + g.IntN(8)
			}
		}
		if i == 0 && firstHdr && m.Size < hdrSize {
			m.Size = hdrSize + g.IntN(16)
		}
		out = append(out, m)
	}
	if two && firstHdr && len(out) > 0 {
		out[0].Sender = 0
	}
	return out
}

func genFlowPlan(g *simrt.Rng, tier string, ends []int) *FlowPlan {
	p := &FlowPlan{Env: genEnv(g, tier)}
	nCli := 1 + g.IntN(3)
	for i := 0; i < nCli; i++ {
		p.Clients = append(p.Clients, ClientPlan{Kind: simrt.Pick(g, "connect", "connect", "ondemand", "auto")})
	}
	maxCh, maxMsg, maxSize := 6, 10, 6000
	if tier == "thorough" {
		maxCh, maxMsg, maxSize = 8, 24, 70000
	}
	if g.Bool(0.1) {
		maxSize = 262144
	}
	if (p.Net.BufCap > 0 && p.Net.BufCap <= 64) || (p.Net.SegMax > 0 && p.Net.SegMax <= 3) || (p.Net.ReadMax > 0 && p.Net.ReadMax <= 2) {
		// byte-sized transport steps: keep the run within the step budget
		maxSize = min(maxSize, 4096)
	}
	nCh := 1 + g.IntN(maxCh)
	for i := 0; i < nCh; i++ {
		p.Channels = append(p.Channels, genChan(g, &p.Env, nCli, maxMsg, maxSize, ends))
	}
	return p
}

func genChan(g *simrt.Rng, e *Env, nCli, maxMsg, maxSize int, ends []int) ChanPlan {
	w := e.Opt.Window
	c := ChanPlan{Client: g.IntN(nCli), End: ends[g.IntN(len(ends))]}
	c.SrvChanCtx = g.Bool(0.3)
	if g.Bool(0.3) {
		c.RecvDelayUs[0] = simrt.Pick(g, 10, 500, 20000)
	}
	if g.Bool(0.3) {
		c.RecvDelayUs[1] = simrt.Pick(g, 10, 500, 20000)
	}
	for side := 0; side < 2; side++ {
		if g.Bool(0.08) {
			c.RecvCtx[side] = 1 + g.IntN(2)
			c.RecvCtxUs[side] = simrt.Pick(g, 1, 20, 300, 3000, 50000)
		}
		c.RecvPoll[side] = g.Bool(0.15)
		if side == 0 && g.Bool(0.1) {
			c.Unopened = 1 + g.IntN(3)
		}
		if g.Bool(0.08) {
			c.SendCtx[side] = 1 + g.IntN(2)
			c.SendCtxUs[side] = simrt.Pick(g, 1, 20, 300, 3000, 50000)
		}
	}
	if c.End == EndClientClose && g.Bool(0.15) {
		// open+close batch
		c.OpenClose = true
		c.ClosePayload = hdrSize + g.IntN(200)
		if g.Bool(0.4) {
			c.SendCtx[0] = 1 + g.IntN(2)
			c.SendCtxUs[0] = simrt.Pick(g, 1, 20, 300, 3000)
		}
		c.S2C = genMsgs(g, g.IntN(4), w, maxSize, false, false)
		return c
	}
	twoC, twoS := g.Bool(0.15), g.Bool(0.15)
	c.CloseRace = twoC && g.Bool(0.5)
	c.C2S = genMsgs(g, 1+g.IntN(maxMsg), w, maxSize, twoC, true)
	c.S2C = genMsgs(g, g.IntN(maxMsg+1), w, maxSize, twoS, false)
	if (c.End == EndClientClose || c.End == EndServerClose) && g.Bool(0.6) {
		c.ClosePayload = sizeAlphabet(g, w, maxSize)
		if ((c.End == EndClientClose && twoC) || (c.End == EndServerClose && twoS)) && c.ClosePayload < hdrSize {
			c.ClosePayload = hdrSize + g.IntN(8) // two senders: every message carries a header
		}
	}
	// how many of Y's messages X waits for before ending
	if c.enderIsClient() {
		c.EndRecv = g.IntN(len(c.S2C) + 1)
		if g.Bool(0.5) {
			c.EndRecv = len(c.S2C)
		}
	} else {
		c.EndRecv = 1 + g.IntN(len(c.C2S)) // the handler has always received the first message
		if g.Bool(0.5) {
			c.EndRecv = len(c.C2S)
		}
	}
	return c
}

// genBulk is the "stalled receiver under a full default window" profile: one channel,
// megabytes of backlog in the receive queue before the receiver starts to drain.
func genBulk(g *simrt.Rng, tier string) *FlowPlan {
	p := &FlowPlan{Env: genEnv(g, tier)}
	p.Opt.Window = 16 << 20
	p.Opt.WriteQueue = 16 << 20
	p.Net.BufCap = 0
	p.Net.SegMax, p.Net.ReadMax, p.Net.ShortRead = 0, 0, 0
	p.Net.LatencyMinUs, p.Net.LatencyMaxUs = 0, 0
	if p.Sched.Policy == simrt.PolicyRandom && p.Sched.PYield > 0.01 {
		p.Sched.PYield = 0.002
	}
	p.Clients = []ClientPlan{{Kind: "connect"}}
	size := simrt.Pick(g, 65536, 65536, 262144, 1<<20)
	total := (9 + g.IntN(10)) << 20
	c := ChanPlan{End: EndClientClose}
	for n := 0; n < total; n += size {
		c.C2S = append(c.C2S, Msg{Size: size})
	}
	if g.Bool(0.3) {
		c.C2S = append(c.C2S[:3:3], append([]Msg{{Size: 17 << 20}}, c.C2S[3:8]...)...)
	}
	c.ClosePayload = 100
	c.RecvDelayUs[1] = 20000 // the handler sleeps 20 ms before each Receive: the sender runs ahead
	p.Channels = []ChanPlan{c}
	return p
}

// genAckRace is the "acknowledgement under back-pressure while the channel ends" profile:
// tiny write queue and socket buffers (every frame has to wait for room), small windows (every
// message is acknowledged), handlers that receive with their own channel context, clients that
// close right after their last message, and a few streaming channels that keep the server's
// write queue contended.
func genAckRace(g *simrt.Rng, tier string) *FlowPlan {
	p := &FlowPlan{Env: genEnv(g, tier)}
	p.Opt.WriteQueue = simrt.Pick(g, 1, 16)
	p.Net.BufCap = simrt.Pick(g, 16, 64)
	p.Opt.Window = simrt.Pick(g, 16, 40, 64, 200)
	p.Opt.Compression = false
	if p.Sched.Policy == simrt.PolicyRandom && p.Sched.PYield == 0 {
		p.Sched.PYield = 0.05
	}
	p.Clients = []ClientPlan{{Kind: "connect"}}
	w := p.Opt.Window
	for i := 2 + g.IntN(2); i > 0; i-- { // streams towards the client
		c := ChanPlan{End: EndServerClose, SrvChanCtx: true}
		if g.Bool(0.4) {
			// a sender with a deadline on every Send: it expires while the frame waits for room
			c.SendCtx[1] = 1 + g.IntN(2)
			c.SendCtxUs[1] = simrt.Pick(g, 1, 20, 300, 3000)
		}
		c.C2S = []Msg{{Size: hdrSize + g.IntN(8)}}
		c.S2C = genMsgs(g, 6+g.IntN(10), w, 3*w, false, false)
		c.EndRecv = 1
		p.Channels = append(p.Channels, c)
	}
	for i := 2 + g.IntN(4); i > 0; i-- { // victims: a few messages, then the close right behind them
		c := ChanPlan{End: simrt.Pick(g, EndClientClose, EndClientFree), SrvChanCtx: true}
		c.C2S = []Msg{{Size: hdrSize + g.IntN(8)}}
		if g.Bool(0.4) {
			// a handler with a deadline of its own on every Receive: it expires while the acknowledgement waits for room
			c.RecvCtx[1] = 1 + g.IntN(2)
			c.RecvCtxUs[1] = simrt.Pick(g, 1, 20, 300, 3000)
		}
		for k := 1 + g.IntN(3); k > 0; k-- {
			c.C2S = append(c.C2S, Msg{Size: w/2 + g.IntN(w)})
		}
		if c.End == EndClientClose && g.Bool(0.7) {
			c.ClosePayload = 1 + g.IntN(w)
		}
		p.Channels = append(p.Channels, c)
	}
	for i := g.IntN(4); i > 0; i-- { // open+close batches sent under a deadline while the write queue is contended
		c := ChanPlan{End: EndClientClose, OpenClose: true, ClosePayload: hdrSize + g.IntN(3*w)}
		c.SendCtx[0] = 1 + g.IntN(2)
		c.SendCtxUs[0] = simrt.Pick(g, 1, 20, 300, 3000)
		p.Channels = append(p.Channels, c)
	}
	return p
}

func (mpxflowScn) Generate(g *simrt.Rng, tier string) any {
	if g.Bool(0.01) {
		return genBulk(g, tier)
	}
	if g.Bool(0.05) {
		return genAckRace(g, tier)
	}
	// C03 ends channels in an orderly way: the ending side has received everything it
	// waits for. (Ending at arbitrary instants against in-flight traffic is C06's scenario.)
	p := genFlowPlan(g, tier, []int{EndClientClose, EndClientFree, EndServerClose, EndHandlerOK})
	for i := range p.Channels {
		c := &p.Channels[i]
		if !c.enderIsClient() {
			c.EndRecv = len(c.C2S)
		}
	}
	return p
}

func (mpxflowScn) Decode(raw json.RawMessage) (any, error) {
	p := &FlowPlan{}
	err := json.Unmarshal(raw, p)
	return p, err
}

func (mpxflowScn) Run(t *testing.T, seed uint64, plan any, o RunOpts) *Report {
	p := plan.(*FlowPlan)
	return runFlow(t, seed, p, o, nil, "C03")
}

// runFlow executes a flow plan and applies the common oracles.
func runFlow(t *testing.T, seed uint64, p *FlowPlan, o RunOpts, extra func(net *simnet.Net, eps []*endpoint), prop string) *Report {
	return runFlowX(t, seed, p, o, prop, func(r *flowRun) { r.extra = extra })
}

func runFlowX(t *testing.T, seed uint64, p *FlowPlan, o RunOpts, prop string, setup func(r *flowRun)) *Report {
	r := newFlowRun(p)
	if setup != nil {
		setup(r)
	}
	cfg := p.Env.simConfig(seed)
	o.apply(&cfg)
	cfg.OnIdle = func() { r.stranded = bytequeue.VerifStranded() }
	var net *simnet.Net
	res := simrt.Run(t, cfg, func() {
		r.flowMain(func(n *simnet.Net, eps []*endpoint) {
			net = n
			if r.tap != nil {
				n.Tap = r.tap
			}
			if r.extra != nil {
				r.extra(n, eps)
			}
		})
	})
	rep := newReport(res)
	if net != nil {
		rep.addNet(net)
	}
	if rep.Inconclusive == "sim-cap" && len(rep.Violations) == 0 && !p.Faulty && net != nil && res.SimTime-net.LastIO > 10*time.Minute {
		// Receivers with deadlines of their own keep the clock running, so a stall is no deadlock for the
		// scheduler: the run reaches the cap of simulated time with nothing having moved for >10 minutes.
		rep.Inconclusive = ""
		if r.stranded > 0 {
			rep.violate("F1-bytequeue-lost-wakeup", "stall with %d byte queue(s) holding unread data in a later block while the reader is parked without a wake-up token; live tasks: %v", r.stranded, res.Blocked)
		} else {
			rep.violate(prop+"-deadlock", "the run stopped making progress with work outstanding: the last byte moved at %v and receivers kept polling until %v; live tasks: %v; network: %v", net.LastIO, res.SimTime, res.Blocked, net.Dump())
		}
		return rep
	}
	if rep.Inconclusive != "" || len(rep.Violations) > 0 {
		return rep
	}
	if res.Deadlock {
		var nd []string
		if net != nil {
			nd = net.Dump()
		}
		if r.stranded > 0 {
			rep.violate("F1-bytequeue-lost-wakeup", "deadlock with %d byte queue(s) holding unread data in a later block while the reader is parked without a wake-up token; blocked: %v", r.stranded, res.Blocked)
			return rep
		}
		if p.Faulty {
			rep.violate("C09-waiter-not-released", "after the transport failure some operation never returned: blocked: %v; network: %v", res.Blocked, nd)
			return rep
		}
		rep.violate(prop+"-deadlock", "the run stopped making progress with work outstanding; blocked: %v; network: %v", res.Blocked, nd)
		return rep
	}
	if !p.Faulty {
		rep.Violations = append(rep.Violations, r.checkComplete(res)...)
		if !r.tornDown {
			r.errorsAtTeardown = len(r.log.errors)
			r.panicsAtTeardown = len(res.Panics)
		}
		for _, l := range r.log.errors[:min(r.errorsAtTeardown, len(r.log.errors))] {
			if r.hostile && !containsAny(l, "panic", "Panic") {
				rep.count("probe:errors_logged_for_hostile_conns", 1)
				continue // errors on the hostile peers' own connections are the contained effect
			}
			rep.violate("C06-library-error", "the library logged an error on a healthy run: %s", trunc(l, 300))
			break
		}
		for _, pn := range res.Panics[:min(r.panicsAtTeardown, len(res.Panics))] {
			if r.hostile && !containsAny(pn, "UNRECOVERED") {
				rep.count("probe:recovered_panics_on_hostile_conns", 1)
				continue
			}
			rep.violate("C06-library-panic", "the library panicked on a healthy run: %s", trunc(pn, 600))
			break
		}
		if r.hostile {
			for _, pn := range res.Panics {
				if containsAny(pn, "UNRECOVERED") {
					rep.violate("C11-process-crash", "a panic escaped every recover (the process would have died): %s", trunc(pn, 900))
					break
				}
			}
		}
	}
	// statistics / probes
	for _, cs := range r.chans {
		rep.count("channels", 1)
		rep.count("end:"+endNames[cs.plan.End], 1)
		for d := 0; d < 2; d++ {
			rep.count("msgs_received", int64(cs.d[d].recvCount))
		}
		if cs.plan.OpenClose {
			rep.count("probe:open_close_batch", 1)
		}
	}
	if p.Opt.Compression {
		rep.count("probe:compression_runs", 1)
	}
	rep.count("probe:receives_repeated_after_own_deadline", int64(r.recvCtxExpired))
	rep.count("probe:sends_repeated_after_own_deadline", int64(r.sendCtxExpired))
	rep.count("probe:channels_freed_unopened", int64(r.unopened))
	return rep
}

func (mpxflowScn) Shrink(plan any) []any { return shrinkFlow(plan.(*FlowPlan)) }

func cloneFlow(p *FlowPlan) *FlowPlan {
	b, _ := json.Marshal(p)
	q := &FlowPlan{}
	json.Unmarshal(b, q)
	return q
}

// shrinkFlow proposes simpler plans (fewer channels, messages, smaller sizes, calmer environment).
func shrinkFlow(p *FlowPlan) []any {
	var out []any
	add := func(f func(q *FlowPlan) bool) {
		q := cloneFlow(p)
		if f(q) {
			out = append(out, q)
		}
	}
	for i := range p.Channels {
		i := i
		if len(p.Channels) > 1 {
			add(func(q *FlowPlan) bool { q.Channels = append(q.Channels[:i], q.Channels[i+1:]...); return true })
		}
	}
	if len(p.Clients) > 1 {
		add(func(q *FlowPlan) bool {
			q.Clients = q.Clients[:1]
			for i := range q.Channels {
				q.Channels[i].Client = 0
			}
			return true
		})
	}
	for i := range p.Channels {
		i := i
		c := p.Channels[i]
		if len(c.S2C) > 0 {
			add(func(q *FlowPlan) bool {
				x := &q.Channels[i]
				x.S2C = x.S2C[:len(x.S2C)/2]
				if x.enderIsClient() && x.EndRecv > len(x.S2C) {
					x.EndRecv = len(x.S2C)
				}
				return true
			})
		}
		if len(c.C2S) > 1 {
			add(func(q *FlowPlan) bool {
				x := &q.Channels[i]
				x.C2S = x.C2S[:(len(x.C2S)+1)/2]
				if !x.enderIsClient() && x.EndRecv > len(x.C2S) {
					x.EndRecv = len(x.C2S)
				}
				return true
			})
		}
		add(func(q *FlowPlan) bool {
			x := &q.Channels[i]
			ch := false
			for k := range x.C2S {
				if x.C2S[k].Size > 32 {
					x.C2S[k].Size = max(hdrSize, x.C2S[k].Size/2)
					ch = true
				}
			}
			for k := range x.S2C {
				if x.S2C[k].Size > 32 {
					x.S2C[k].Size = max(hdrSize, x.S2C[k].Size/2)
					ch = true
				}
			}
			return ch
		})
		if c.RecvDelayUs != [2]int{} {
			add(func(q *FlowPlan) bool { q.Channels[i].RecvDelayUs = [2]int{}; return true })
		}
		if c.ClosePayload > 0 && !c.OpenClose {
			add(func(q *FlowPlan) bool { q.Channels[i].ClosePayload = 0; return true })
		}
	}
	out = append(out, shrinkEnv(p, func(q any) *Env { return &q.(*FlowPlan).Env }, func() any { return cloneFlow(p) })...)
	return out
}

// shrinkEnv proposes calmer environments.
func shrinkEnv(p any, env func(any) *Env, clone func() any) []any {
	var out []any
	e := env(p)
	try := func(f func(e *Env) bool) {
		q := clone()
		if f(env(q)) {
			out = append(out, q)
		}
	}
	if e.Sched.Policy != simrt.PolicyRandom || e.Sched.PYield != 0 || e.Sched.HotMod != 0 || e.Sched.SpawnLag != 0 {
		try(func(e *Env) bool { e.Sched = SchedPlan{Policy: simrt.PolicyRandom, PYield: 0, SiteMask: ^uint64(0)}; return true })
	}
	if e.Net.LatencyMaxUs != 0 || e.Net.SegMax != 0 || e.Net.ReadMax != 0 || e.Net.ShortRead != 0 || e.Net.DialLatUs != 0 {
		try(func(e *Env) bool {
			e.Net.LatencyMaxUs, e.Net.LatencyMinUs, e.Net.SegMax, e.Net.ReadMax, e.Net.ShortRead, e.Net.DialLatUs = 0, 0, 0, 0, 0, 0
			return true
		})
	}
	if e.Net.BufCap != 0 {
		try(func(e *Env) bool { e.Net.BufCap = 0; return true })
	}
	if e.Opt.Compression {
		try(func(e *Env) bool { e.Opt.Compression = false; return true })
	}
	if e.Pool.Policy != 0 || e.Pool.Poison {
		try(func(e *Env) bool { e.Pool = PoolPlan{}; return true })
	}
	if e.Opt.WriteQueue != 16<<20 || e.Opt.ReadBuf != 32768 || e.Opt.WriteBuf != 32768 {
		try(func(e *Env) bool { e.Opt.WriteQueue, e.Opt.ReadBuf, e.Opt.WriteBuf = 16<<20, 32768, 32768; return true })
	}
	if len(e.Net.Faults) > 1 {
		for i := range e.Net.Faults {
			i := i
			try(func(e *Env) bool { e.Net.Faults = append(e.Net.Faults[:i:i], e.Net.Faults[i+1:]...); return true })
		}
	}
	return out
}
