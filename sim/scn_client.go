package simcheck

import (
	"encoding/json"
	"fmt"
	"testing"
	"time"

	"github.com/basecomplextech/baselibrary/async"
	"github.com/basecomplextech/baselibrary/status"
	"github.com/basecomplextech/baselibrary/verifsim/simnet"
	"github.com/basecomplextech/baselibrary/verifsim/simrt"
	"github.com/basecomplextech/spec/mpx"
)

// client (C19): the client's connection state under concurrent callers, server
// stop/start sequences and dial failures, with the back-off measured on the
// simulated clock.

type CliOp struct {
	Kind string `json:"k"` // conn | channel | close | sleep
	Us   int    `json:"us,omitempty"`
}

type SrvOp struct {
	Kind string `json:"k"` // down | up | reset | refuse | timeout | cut | sleep
	Us   int    `json:"us,omitempty"`
	N    int    `json:"n,omitempty"`
}

type ClientScnPlan struct {
	Env
	Mode   string    `json:"mode"` // ondemand | auto
	Tasks  [][]CliOp `json:"tasks"`
	Server []SrvOp   `json:"server"`
	// ProbeDeadlineMs: the recovery calls carry a deadline of their own and are repeated (0: no deadline)
	ProbeDeadlineMs int `json:"probe_deadline_ms,omitempty"`
	// NoSettle: the recovery calls start right after the last fault instead of after the back-off cap
	NoSettle bool `json:"no_settle,omitempty"`
}

type clientScn struct{}

func (clientScn) Name() string     { return "client" }
func (clientScn) Property() string { return "C19" }

func (clientScn) Generate(g *simrt.Rng, tier string) any {
	p := &ClientScnPlan{Env: genEnv(g, tier)}
	p.Mode = simrt.Pick(g, "ondemand", "auto", "auto")
	p.Opt.MaxConns = 1 + g.IntN(4)
	p.Opt.ConnChannels = 1 + g.IntN(4)
	p.Opt.DialTimeoutMs = simrt.Pick(g, 50, 500, 2000)
	p.Opt.Compression = g.Bool(0.3)
	p.ProbeDeadlineMs = simrt.Pick(g, 0, 0, 100, 300, 600)
	p.NoSettle = g.Bool(0.5)
	p.Net.BufCap = 0
	nT := 2 + g.IntN(5)
	closers := 0
	for i := 0; i < nT; i++ {
		var ops []CliOp
		n := 1 + g.IntN(8)
		for k := 0; k < n; k++ {
			switch g.IntN(10) {
			case 0, 1:
				ops = append(ops, CliOp{Kind: "conn"})
			case 2, 3, 4, 5:
				ops = append(ops, CliOp{Kind: "channel", Us: simrt.Pick(g, 0, 100, 5000, 100000, 1000000)})
			case 7:
				ops = append(ops, CliOp{Kind: "closeconn"})
			case 6:
				if closers < 2 && g.Bool(0.5) {
					ops = append(ops, CliOp{Kind: "close"})
					closers++
				}
			default:
				ops = append(ops, CliOp{Kind: "sleep", Us: simrt.Pick(g, 10, 1000, 30000, 400000, 3000000)})
			}
		}
		p.Tasks = append(p.Tasks, ops)
	}
	// server schedule
	nS := g.IntN(7)
	up := true
	for i := 0; i < nS; i++ {
		p.Server = append(p.Server, SrvOp{Kind: "sleep", Us: simrt.Pick(g, 100, 20000, 300000, 2000000)})
		switch {
		case !up:
			p.Server = append(p.Server, SrvOp{Kind: "up"})
			up = true
		case g.Bool(0.4):
			p.Server = append(p.Server, SrvOp{Kind: "down"})
			up = false
			if g.Bool(0.3) {
				// a long outage: the back-off reaches its cap and the attempt counter grows large
				p.Server = append(p.Server, SrvOp{Kind: "sleep", Us: simrt.Pick(g, 20_000_000, 90_000_000, 200_000_000)})
			}
		case g.Bool(0.25):
			p.Server = append(p.Server, SrvOp{Kind: "reset"})
		case g.Bool(0.25):
			p.Server = append(p.Server, SrvOp{Kind: "reset1", N: g.IntN(3)})
		case g.Bool(0.3):
			// the server (or something in front of it) accepts the connection and fails the handshake, several times in a row
			if g.Bool(0.5) {
				p.Server = append(p.Server, SrvOp{Kind: "reset"})
			} // else: the live connections stay, only additional ones (channels target reached) fail their handshake
			// often a single one: a run of them ends in the known finding K1, which hides what else the cut did
			p.Server = append(p.Server, SrvOp{Kind: "cut", N: simrt.Pick(g, 1, 1, 1, 1+g.IntN(8))})
		case g.Bool(0.5):
			p.Server = append(p.Server, SrvOp{Kind: "refuse", N: 1 + g.IntN(5)})
		default:
			p.Server = append(p.Server, SrvOp{Kind: "timeout", N: 1 + g.IntN(3)})
		}
	}
	if !up {
		p.Server = append(p.Server, SrvOp{Kind: "sleep", Us: 50000}, SrvOp{Kind: "up"})
	}
	if g.Bool(0.35) {
		// the child overtakes its parent: the routine that starts a goroutine (the connect routine
		// starting a connection's handler, a connection starting its loops) stays behind it
		p.Sched.SpawnLag = simrt.Pick(g, 3, 5, 7)
		p.Sched.SpawnMod = simrt.Pick(g, 1, 2, 3)
		p.Sched.SpawnSalt = g.IntN(1 << 16)
	}
	return p
}

func (clientScn) Decode(raw json.RawMessage) (any, error) {
	p := &ClientScnPlan{}
	err := json.Unmarshal(raw, p)
	return p, err
}

type dialRec struct {
	start, end time.Duration
	ok         bool
	cut        bool // the connection was established and reset inside its handshake: a failed attempt
}

type clientRun struct {
	handshakeBackoff string
	p       *ClientScnPlan
	bg      async.CancelContext
	log     *recLogger
	net     *simnet.Net
	cl      mpx.Client
	srv     mpx.Server
	srvUp   bool
	closed  bool          // Close has returned
	closeAt time.Duration // when
	idles   int64
	dials   []dialRec
	probes  map[string]int64
	lastUp  time.Duration
	active  int
}

func (r *clientRun) handler(ctx mpx.Context, ch mpx.Channel) status.Status {
	hbAcquire()
	defer hbRelease()
	r.active++
	defer func() { r.active-- }()
	for {
		b, st := ch.Receive(ctx)
		if !st.OK() {
			return status.OK
		}
		if st := ch.Send(ctx, b); !st.OK() {
			return status.OK
		}
	}
}

func (r *clientRun) maxConns() int {
	if r.p.Opt.MaxConns <= 0 {
		return 1
	}
	return r.p.Opt.MaxConns
}

// onIdle is the quiescent-point oracle (runs in scheduler context).
func (r *clientRun) onIdle() {
	if r.cl == nil {
		return
	}
	r.idles++
	c, d := r.cl.Connected().IsSet(), r.cl.Disconnected().IsSet()
	if c == d {
		simrt.Fail("C19-flags", "at a quiescent point Connected=%v and Disconnected=%v: exactly one must be set", c, d)
	}
	open := r.net.OpenClient(simAddr)
	if open > r.maxConns() {
		simrt.Fail("C19-max-conns", "%d client connections are open, the configured maximum is %d", open, r.maxConns())
	}
	if c && open == 0 {
		simrt.Fail("C19-connected-without-conn", "Connected is set at a quiescent point but the client owns no open connection")
	}
	if r.closed {
		if open != 0 {
			simrt.Fail("C19-open-after-close", "%d connection(s) still open at a quiescent point after Close returned", open)
		}
		if c || !d || !r.cl.Closed().IsSet() {
			simrt.Fail("C19-flags-after-close", "after Close: Connected=%v Disconnected=%v Closed=%v", c, d, r.cl.Closed().IsSet())
		}
	}
}

func (clientScn) Run(t *testing.T, seed uint64, plan any, o RunOpts) *Report {
	p := plan.(*ClientScnPlan)
	r := &clientRun{p: p, probes: map[string]int64{}}
	cfg := p.Env.simConfig(seed)
	o.apply(&cfg)
	cfg.OnIdle = r.onIdle
	cfg.MaxSim = 2 * time.Hour
	// a reconnect loop that never waits shows up as scheduler steps without simulated time passing;
	// this scenario moves only a few hundred bytes, so 300000 steps at one instant is such a loop
	cfg.LivelockSteps = 300_000
	res := simrt.Run(t, cfg, r.main)
	rep := newReport(res)
	if r.net != nil {
		rep.addNet(r.net)
	}
	for k, v := range r.probes {
		rep.count("probe:"+k, v)
	}
	rep.count("probe:quiescent_points_checked", r.idles)
	if rep.Inconclusive != "" || len(rep.Violations) > 0 {
		return rep
	}
	if res.Deadlock {
		rep.violate("C19-deadlock", "a client call never returned: blocked: %v", res.Blocked)
		return rep
	}
	if v := r.checkBackoff(rep); v != "" {
		rep.violate("C19-backoff", "%s", v)
	} else if r.handshakeBackoff != "" {
		rep.violate("C19-backoff-after-handshake-failure", "%s", r.handshakeBackoff)
	}
	if r.net != nil {
		if m := r.net.Stats.MaxOpenClient[simAddr]; m > r.maxConns() {
			rep.violate("C19-max-conns", "%d client connections were open at once, the configured maximum is %d", m, r.maxConns())
		}
	}
	for _, pn := range res.Panics {
		rep.violate("C19-panic", "the library panicked: %s", trunc(pn, 600))
		break
	}
	return rep
}

// checkBackoff verifies the gaps between consecutive failed dials of an auto-connect client.
func (r *clientRun) checkBackoff(rep *Report) string {
	if r.p.Mode != "auto" {
		return ""
	}
	var prevGap time.Duration
	run := 0
	maxRun := 0
	for i := 1; i < len(r.dials); i++ {
		a, b := r.dials[i-1], r.dials[i]
		if a.ok {
			run, prevGap = 0, 0
			continue
		}
		if r.closed && b.start >= r.closeAt {
			break
		}
		run++
		if run > maxRun {
			maxRun = run
		}
		gap := b.start - a.end
		if a.cut {
			// the attempt failed in the handshake, not in the dial: judged under a rule of its own
			if gap < 25*time.Millisecond || gap > time.Second || gap < prevGap {
				r.handshakeBackoff = fmt.Sprintf("retry #%d of a run of failed connection attempts came %v after an attempt that connected and failed its handshake (previous back-off %v): the back-off must stay within [25ms, 1s] and never decrease within a run of failures", run+1, gap, prevGap)
			}
			// the library restarts its attempt counter at every TCP connect (that is the listed finding): what
			// follows is judged as a new run of failures, so that only the step across the failed handshake
			// falls under the finding's rule
			run, prevGap = 0, 0
			continue
		}
		if gap < 25*time.Millisecond || gap > time.Second {
			return fmt.Sprintf("retry #%d of a run of dial failures came %v after the previous attempt ended; the back-off must stay within [25ms, 1s]", run+1, gap)
		}
		if gap < prevGap {
			return fmt.Sprintf("retry #%d came after %v, the previous back-off in the same run of failures was %v: it must never decrease", run+1, gap, prevGap)
		}
		prevGap = gap
	}
	rep.count("probe:longest_failure_run", int64(maxRun))
	if maxRun >= 17 {
		rep.count("probe:failure_runs_beyond_uint16_shift", 1)
	}
	if maxRun >= 64 {
		rep.count("probe:failure_runs_beyond_int_shift", 1)
	}
	return ""
}

func (r *clientRun) startServer() {
	r.srv = mpx.NewServer(simAddr, mpx.HandleFunc(r.handler), r.log, r.p.Opt.options())
	r.srv.Start()
	waitFlag(r.srv.Listening())
	r.srvUp = true
	r.lastUp = simrt.Now()
}

func (r *clientRun) stopServer() {
	simrt.Recv(0, r.srv.Stop())
	// a stopped server process takes its connections with it
	for _, pr := range r.net.Pairs() {
		if !pr.IsReset && !pr.S.Closed() {
			pr.Reset("server-crash")
		}
	}
	r.srvUp = false
}

func (r *clientRun) main() {
	p := r.p
	r.net = p.Env.install()
	r.net.OnDial = func(start, end time.Duration, ok, cut bool) { r.dials = append(r.dials, dialRec{start, end, ok, cut}) }
	r.log = newRecLogger()
	r.bg = async.NewContext()
	r.startServer()
	mode := mpx.ClientMode_OnDemand
	if p.Mode == "auto" {
		mode = mpx.ClientMode_AutoConnect
	}
	r.cl = mpx.NewClient(simAddr, mode, r.log, p.Opt.options())

	var g group
	for i, ops := range p.Tasks {
		i, ops := i, ops
		g.goTask(fmt.Sprintf("cli%d", i), func() { r.clientTask(i, ops) })
	}
	g.goTask("server-ops", func() {
		for _, op := range p.Server {
			switch op.Kind {
			case "sleep":
				hSleep(time.Duration(op.Us) * time.Microsecond)
			case "down":
				if r.srvUp {
					r.stopServer()
					r.probes["server_stops"]++
				}
			case "up":
				if !r.srvUp {
					r.startServer()
					r.probes["server_starts"]++
				}
			case "reset":
				for _, pr := range r.net.Pairs() {
					if !pr.IsReset && !pr.C.Closed() {
						pr.Reset("harness")
					}
				}
			case "reset1":
				// only one of the client's connections dies (the op.N-th live one)
				k := 0
				for _, pr := range r.net.Pairs() {
					if !pr.IsReset && !pr.C.Closed() {
						if k == op.N {
							pr.Reset("harness")
							break
						}
						k++
					}
				}
			case "cut":
				r.net.CutHandshakes(simAddr, op.N)
			case "refuse":
				r.net.RefuseDials(simAddr, op.N)
			case "timeout":
				r.net.TimeoutDials(simAddr, op.N)
			}
		}
	})
	g.wait("client.join")
	if !r.srvUp {
		r.startServer()
	}
	r.net.RefuseDials(simAddr, 0)
	r.net.TimeoutDials(simAddr, 0)
	r.net.CutHandshakes(simAddr, 0)

	// recovery: the server is up and stays up, no more faults. An in-flight (black-holed) dial may
	// still take the dial timeout, then at most the 1 s back-off cap, then one healthy dial.
	if !r.closed {
		bound := time.Duration(p.Opt.DialTimeoutMs)*time.Millisecond + time.Second + 200*time.Millisecond
		if !(p.NoSettle && p.ProbeDeadlineMs > 0 && p.Mode != "auto") {
			hSleep(bound)
		}
		hWaitQuiescent("client.recovery-settle")
		if r.closed {
			// a task closed the client meanwhile
		} else {
			if p.Mode == "auto" {
				if !r.cl.Connected().IsSet() {
					simrt.Fail("C19-no-reconnect", "the auto-connect client is not connected %v after the last fault although the server is listening", bound)
				}
				r.probes["auto_reconnects_checked"]++
			}
			var last status.Status
			if p.ProbeDeadlineMs > 0 {
				// a caller with a deadline of its own on every call, shorter than the back-off cap, that simply
				// tries again: the dial started by one call must survive that call giving up
				for k := 0; k < 25; k++ {
					cctx := async.TimeoutContext(time.Duration(p.ProbeDeadlineMs) * time.Millisecond)
					last = r.echo(cctx)
					cctx.Free()
					if last.OK() {
						break
					}
				}
				if !last.OK() {
					simrt.Fail("C19-no-recovery", "with the server back and no faults for %v, 25 calls with a deadline of %d ms each all failed, the last with %s", bound, p.ProbeDeadlineMs, stName(last))
				}
				r.probes["recovery_with_call_deadlines_checked"]++
			} else {
				last = r.echo(r.bg)
				if !last.OK() {
					last = r.echo(r.bg)
				}
				if !last.OK() {
					simrt.Fail("C19-no-recovery", "with the server back and no faults for %v a call still fails: %s", bound, stName(last))
				}
			}
			r.probes["recovery_calls_checked"]++
		}
	}
	closeStart := simrt.Now()
	st1 := r.cl.Close()
	if !r.closed {
		r.closed, r.closeAt = true, closeStart
	}
	st2 := r.cl.Close()
	if !st1.OK() || !st2.OK() {
		simrt.Fail("C19-close", "Close returned %s, a second Close returned %s", stName(st1), stName(st2))
	}
	if _, st := r.cl.Conn(r.bg); st.OK() || st.Code != status.CodeClosed {
		simrt.Fail("C19-call-after-close", "Conn after Close returned %s", stName(st))
	}
	if _, st := r.cl.Channel(r.bg); st.OK() || st.Code != status.CodeClosed {
		simrt.Fail("C19-call-after-close", "Channel after Close returned %s", stName(st))
	}
	hWaitQuiescent("client.after-close")
	dialsAtClose := len(r.dials)
	hSleep(5 * time.Second)
	hWaitQuiescent("client.after-close2")
	r.probes["dials_after_close"] += int64(len(r.dials) - dialsAtClose)
	if n := len(r.dials) - dialsAtClose; n > 0 {
		simrt.Fail("C19-dial-after-close", "Close had returned and the client had come to rest, yet it dialled the server %d more time(s) in the next 5 s (first at %v, Close returned at %v): Close is not terminal",
			n, r.dials[dialsAtClose].start, r.closeAt)
	}
	simrt.Recv(0, r.srv.Stop())
	for _, pr := range r.net.Pairs() {
		if !pr.IsReset {
			pr.Reset("teardown")
		}
	}
	r.bg.Cancel()
	hWaitQuiescent("client.teardown")
}

// echo performs one channel round trip through the client.
func (r *clientRun) echo(ctx async.Context) status.Status {
	ch, st := r.cl.Channel(ctx)
	if !st.OK() {
		return st
	}
	defer ch.Free()
	msg := payload(r.p.Nonce, 1, 0, 0, 0, 24)
	if st := ch.Send(ctx, msg); !st.OK() {
		return st
	}
	got, st := ch.Receive(ctx)
	if !st.OK() {
		return st
	}
	if string(got) != string(msg) {
		simrt.Fail("C03-content", "echo differs")
	}
	return status.OK
}

func (r *clientRun) clientTask(i int, ops []CliOp) {
	for _, op := range ops {
		switch op.Kind {
		case "sleep":
			hSleep(time.Duration(op.Us) * time.Microsecond)
		case "closeconn":
			// the user closes the connection it was handed (the client has to replace it on demand)
			if conn, st := r.cl.Conn(r.bg); st.OK() && conn != nil {
				cst := conn.Close()
				simrt.Logf("cli%d Conn().Close() -> %s", i, stName(cst))
			}
		case "conn":
			invokedAfterClose := r.closed
			conn, st := r.cl.Conn(r.bg)
			simrt.Logf("cli%d Conn -> %s", i, stName(st))
			if st.OK() && conn == nil {
				simrt.Fail("C19-conn-nil", "Conn returned OK and no connection")
			}
			if invokedAfterClose && (st.OK() || st.Code != status.CodeClosed) {
				simrt.Fail("C19-call-after-close", "Conn invoked after Close returned gave %s", stName(st))
			}
			if st.Code == status.CodeCancelled && !r.bg.Done() {
				simrt.Fail("C19-pending-cancelled", "Conn returned %s although its caller's context was never cancelled (client closed=%v): a call pending across Close must report closed", stName(st), r.cl.Closed().IsSet())
			}
		case "channel":
			invokedAfterClose := r.closed
			ch, st := r.cl.Channel(r.bg)
			simrt.Logf("cli%d Channel -> %s", i, stName(st))
			if invokedAfterClose && (st.OK() || st.Code != status.CodeClosed) {
				simrt.Fail("C19-call-after-close", "Channel invoked after Close returned gave %s", stName(st))
			}
			if st.Code == status.CodeCancelled && !r.bg.Done() {
				simrt.Fail("C19-pending-cancelled", "Channel returned %s although its caller's context was never cancelled (client closed=%v): a call pending across Close must report closed", stName(st), r.cl.Closed().IsSet())
			}
			if !st.OK() {
				continue
			}
			// open it on the server, hold it for a while (it counts towards the channel target)
			msg := payload(r.p.Nonce, 2, 0, i, 0, 20)
			if st := ch.Send(r.bg, msg); st.OK() {
				ch.Receive(r.bg)
			}
			if op.Us > 0 {
				hSleep(time.Duration(op.Us) * time.Microsecond)
			}
			ch.Free()
		case "close":
			closeStart := simrt.Now()
			st := r.cl.Close()
			simrt.Logf("cli%d Close -> %s", i, stName(st))
			if !st.OK() {
				simrt.Fail("C19-close", "Close returned %s", stName(st))
			}
			if !r.closed {
				r.closed, r.closeAt = true, closeStart
			}
			r.probes["concurrent_closes"]++
		}
	}
}

func (clientScn) Shrink(plan any) []any {
	p := plan.(*ClientScnPlan)
	clone := func() *ClientScnPlan {
		b, _ := json.Marshal(p)
		q := &ClientScnPlan{}
		json.Unmarshal(b, q)
		return q
	}
	var out []any
	for i := range p.Tasks {
		if len(p.Tasks) > 1 {
			q := clone()
			q.Tasks = append(q.Tasks[:i], q.Tasks[i+1:]...)
			out = append(out, q)
		}
		if len(p.Tasks[i]) > 1 {
			q := clone()
			q.Tasks[i] = q.Tasks[i][:len(q.Tasks[i])/2]
			out = append(out, q)
		}
	}
	if len(p.Server) > 0 {
		q := clone()
		q.Server = q.Server[:len(q.Server)/2]
		out = append(out, q)
		q = clone()
		q.Server = nil
		out = append(out, q)
	}
	out = append(out, shrinkEnv(p, func(q any) *Env { return &q.(*ClientScnPlan).Env }, func() any { return clone() })...)
	return out
}
