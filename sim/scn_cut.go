package simcheck

import (
	"encoding/json"
	"fmt"
	"testing"
	"time"

	"github.com/basecomplextech/baselibrary/status"
	"github.com/basecomplextech/baselibrary/verifsim/simnet"
	"github.com/basecomplextech/baselibrary/verifsim/simrt"
)

// cut (C09): a short recorded session is cut at every byte offset of its first
// connection, in each direction, by RST and by FIN; then the oracles of a
// transport failure apply (waiters released, contexts cancelled, no panic, no
// partial frame delivered, recovery, no leaked task).

type CutPlan struct {
	Flow      *FlowPlan `json:"flow,omitempty"`
	Rpc       *RpcPlan  `json:"rpc,omitempty"`
	Enumerate bool      `json:"enumerate"`  // false: run Flow as is (its fault list is fixed): the replay form
	MaxPoints int       `json:"max_points"` // cap on cut points per (direction, kind) when the session is long
}

type cutScn struct{}

func (cutScn) Name() string     { return "cut" }
func (cutScn) Property() string { return "C09" }

func genRpcSession(g *simrt.Rng, tier string) *RpcPlan {
	p := genRpcPlan(g, tier)
	p.Faulty = true
	p.Clients = p.Clients[:1]
	if len(p.Calls) > 3 {
		p.Calls = p.Calls[:1+g.IntN(3)]
	}
	for i := range p.Calls {
		c := &p.Calls[i]
		c.Client = 0
		c.ReqSize, c.ResultSize = min(c.ReqSize, 40), min(c.ResultSize, 40)
		if len(c.CliStream) > 2 {
			c.CliStream = c.CliStream[:2]
		}
		if len(c.SrvStream) > 2 {
			c.SrvStream = c.SrvStream[:2]
		}
		for k := range c.CliStream {
			c.CliStream[k] = min(c.CliStream[k], 30)
		}
		for k := range c.SrvStream {
			c.SrvStream[k] = min(c.SrvStream[k], 30)
		}
		if len(c.Msg) > 20 {
			c.Msg = c.Msg[:20]
		}
		c.CancelUs = 0
		if c.DelayUs > 0 {
			c.DelayUs = 20000 // the caller is blocked in Response when the cut comes
		}
	}
	p.Net.LatencyMaxUs = min(p.Net.LatencyMaxUs, 2000)
	p.Net.LatencyMinUs = min(p.Net.LatencyMinUs, p.Net.LatencyMaxUs)
	p.Calls = append(p.Calls, RpcCall{Kind: "request", Code: "ok", ReqSize: 20, ResultSize: 24, Probe: true})
	return p
}

func (cutScn) Generate(g *simrt.Rng, tier string) any {
	mpts := 120
	if tier == "thorough" {
		mpts = 400
	}
	if g.Bool(0.4) {
		return &CutPlan{Rpc: genRpcSession(g, tier), Enumerate: true, MaxPoints: mpts}
	}
	p := &FlowPlan{Env: genEnv(g, tier), Faulty: true}
	// short sessions; operations blocked on the window / the write queue at the time of the fault
	if g.Bool(0.5) {
		p.Opt.Window = simrt.Pick(g, 1, 3, 16, 64)
	}
	if g.Bool(0.4) {
		p.Opt.WriteQueue = simrt.Pick(g, 1, 16, 64)
		p.Net.BufCap = simrt.Pick(g, 16, 64)
	}
	p.Net.LatencyMaxUs = min(p.Net.LatencyMaxUs, 2000)
	p.Net.LatencyMinUs = min(p.Net.LatencyMinUs, p.Net.LatencyMaxUs)
	p.Clients = []ClientPlan{{Kind: simrt.Pick(g, "connect", "ondemand", "auto")}}
	ends := []int{EndClientClose, EndClientFree, EndServerClose, EndHandlerOK}
	nCh := 1 + g.IntN(2)
	for i := 0; i < nCh; i++ {
		c := genChan(g, &p.Env, 1, 3, 60, ends)
		if !c.enderIsClient() && !c.OpenClose {
			c.EndRecv = len(c.C2S)
		}
		if g.Bool(0.3) {
			c.RecvDelayUs[g.IntN(2)] = 20000 // a stalled receiver: the peer's Send is blocked when the cut comes
		}
		p.Channels = append(p.Channels, c)
	}
	mp := 80
	if tier == "thorough" {
		mp = 400
	}
	return &CutPlan{Flow: p, Enumerate: true, MaxPoints: mp}
}

func (cutScn) Decode(raw json.RawMessage) (any, error) {
	p := &CutPlan{}
	err := json.Unmarshal(raw, p)
	return p, err
}

// session abstracts over the two kinds of recorded sessions.
type cutSession struct {
	clone func(faults []simnet.Fault) *CutPlan
	run   func(cp *CutPlan, o RunOpts, tap func(int, int, []byte), post func(net *simnet.Net)) *Report
}

func (cutScn) Run(t *testing.T, seed uint64, plan any, o RunOpts) *Report {
	cp := plan.(*CutPlan)
	var ses cutSession
	if cp.Rpc != nil {
		ses.clone = func(f []simnet.Fault) *CutPlan {
			b, _ := json.Marshal(cp.Rpc)
			q := &RpcPlan{}
			json.Unmarshal(b, q)
			q.Net.Faults = f
			return &CutPlan{Rpc: q}
		}
		ses.run = func(c *CutPlan, o RunOpts, tap func(int, int, []byte), post func(net *simnet.Net)) *Report {
			return runFaultyRpc(t, seed, c.Rpc, o, tap, post)
		}
	} else {
		ses.clone = func(f []simnet.Fault) *CutPlan {
			q := cloneFlow(cp.Flow)
			q.Net.Faults = f
			return &CutPlan{Flow: q}
		}
		ses.run = func(c *CutPlan, o RunOpts, tap func(int, int, []byte), post func(net *simnet.Net)) *Report {
			return runFaultyFlow(t, seed, c.Flow, o, tap, post)
		}
	}
	if !cp.Enumerate {
		return ses.run(cp, o, nil, nil)
	}
	// dry run: the session without faults
	var sizes [2]int64
	var bounds [2][]int64
	mon := newWireMon(false)
	dryPlan := ses.clone(nil)
	dry := ses.run(dryPlan, o, mon.feed, func(net *simnet.Net) {
		if len(net.Pairs()) > 0 {
			pr := net.Pairs()[0]
			sizes[0], sizes[1] = pr.C.Sent, pr.S.Sent
		}
		for d := 0; d < 2; d++ {
			bounds[d] = append([]int64(nil), mon.dirOf(0, d).boundaries...)
		}
	})
	total := newReportMerge(dry)
	if len(dry.Violations) > 0 || dry.Inconclusive != "" {
		dry.ReplayPlan = dryPlan
		return dry
	}
	total.count("sessions", 1)
	if cp.Rpc != nil {
		total.count("sessions_rpc", 1)
	}
	for dir := 0; dir < 2; dir++ {
		n := sizes[dir]
		points := cutPoints(n, bounds[dir], cp.MaxPoints, seed+uint64(dir))
		if int64(len(points)) == n+1 {
			total.count("probe:directions_cut_at_every_byte", 1)
		}
		for _, kind := range []simnet.FaultKind{simnet.FaultRST, simnet.FaultFIN} {
			for _, k := range points {
				q := ses.clone([]simnet.Fault{{Conn: 0, Dir: dir, AtByte: k, Kind: kind}})
				rep := ses.run(q, RunOpts{CheckGoid: o.CheckGoid && k%16 == 0}, nil, nil)
				total.merge(rep)
				total.count("cut_points", 1)
				if len(rep.Violations) > 0 || rep.Inconclusive != "" {
					rep.ReplayPlan = q
					rep.Counts = total.Counts
					rep.Steps, rep.Switches, rep.SimUs = total.Steps, total.Switches, total.SimUs
					return rep
				}
			}
		}
	}
	return total
}

// runFaultyRpc runs an rpc plan with its planned faults and applies the C09 oracles.
func runFaultyRpc(t *testing.T, seed uint64, p *RpcPlan, o RunOpts, tap func(int, int, []byte), post func(net *simnet.Net)) *Report {
	p.Faulty = true
	var rr *rpcRun
	rep := runRpcX(t, seed, p, o, func(r *rpcRun) {
		rr = r
		r.tap = tap
		r.postNet = post
	})
	if rep.Inconclusive != "" || len(rep.Violations) > 0 {
		return rep
	}
	for _, l := range rr.log.errors {
		if containsAny(l, "panic", "Panic") && !containsAny(l, "verif-sentinel-panic") {
			rep.violate("C09-panic-logged", "the library logged a panic after a transport failure: %s", trunc(l, 300))
			return rep
		}
	}
	if len(rep.Panics) > 0 {
		rep.violate("C09-panic", "the library panicked after a transport failure: %s", trunc(rep.Panics[0], 900))
		return rep
	}
	if len(rr.leaked) > 0 {
		rep.violate("C09-leak", "tasks of the system are still alive long after the fault and after everything was closed: %v", rr.leaked)
	}
	return rep
}

// cutPoints returns the byte offsets to cut at: all of [0,n] for short directions, otherwise
// every element boundary +-1, the first 64 bytes (handshake) and a seeded sample.
func cutPoints(n int64, bounds []int64, maxPoints int, seed uint64) []int64 {
	if n+1 <= int64(maxPoints) {
		out := make([]int64, 0, n+1)
		for k := int64(0); k <= n; k++ {
			out = append(out, k)
		}
		return out
	}
	set := map[int64]bool{0: true, n: true}
	for k := int64(0); k < 64 && k <= n; k += 3 {
		set[k] = true
	}
	for _, b := range bounds {
		for _, d := range []int64{-1, 0, 1, 2, 4} {
			if b+d >= 0 && b+d <= n {
				set[b+d] = true
			}
		}
	}
	g := simrt.NewRng(seed, simrt.StreamGen)
	for len(set) < maxPoints {
		set[int64(g.IntN(int(n+1)))] = true
	}
	out := make([]int64, 0, len(set))
	for k := range set {
		out = append(out, k)
	}
	sortInt64(out)
	if len(out) > maxPoints {
		// keep an even spread
		step := float64(len(out)) / float64(maxPoints)
		var o2 []int64
		for i := 0; i < maxPoints; i++ {
			o2 = append(o2, out[int(float64(i)*step)])
		}
		out = o2
	}
	return out
}

func sortInt64(a []int64) {
	for i := 1; i < len(a); i++ {
		for j := i; j > 0 && a[j-1] > a[j]; j-- {
			a[j-1], a[j] = a[j], a[j-1]
		}
	}
}

// runFaultyFlow runs a flow plan with its planned faults and applies the C09 oracles.
func runFaultyFlow(t *testing.T, seed uint64, p *FlowPlan, o RunOpts, tap func(int, int, []byte), post func(net *simnet.Net)) *Report {
	p.Faulty = true
	var rr *flowRun
	rep := runFlowX(t, seed, p, o, "C09", func(r *flowRun) {
		rr = r
		r.tap = tap
		r.post = func(net *simnet.Net, eps []*endpoint) {
			r.recoveryProbe(net, eps)
			if post != nil {
				post(net)
			}
		}
	})
	if rep.Inconclusive != "" || len(rep.Violations) > 0 {
		return rep
	}
	for _, l := range rr.log.errors {
		// connection errors are expected after a cut; panics are not
		if containsAny(l, "panic", "Panic") {
			rep.violate("C09-panic-logged", "the library logged a panic after a transport failure: %s", trunc(l, 300))
			return rep
		}
	}
	if len(rep.Panics) > 0 {
		rep.violate("C09-panic", "the library panicked after a transport failure: %s", trunc(rep.Panics[0], 900))
		return rep
	}
	if len(rr.leaked) > 0 {
		rep.violate("C09-leak", "tasks of the system are still alive long after the fault and after everything was closed: %v", rr.leaked)
	}
	return rep
}

func containsAny(s string, subs ...string) bool {
	for _, x := range subs {
		if len(x) > 0 && len(s) >= len(x) {
			for i := 0; i+len(x) <= len(s); i++ {
				if s[i:i+len(x)] == x {
					return true
				}
			}
		}
	}
	return false
}

// recoveryProbe runs after all channel scripts have ended: a dead connection
// must refuse new channels; a client must work again (the listener is up).
func (r *flowRun) recoveryProbe(net *simnet.Net, eps []*endpoint) {
	for i, ep := range eps {
		switch {
		case ep.conn != nil:
			if ep.conn.Closed().IsSet() {
				// a channel may still be handed out while the connection is closing, but nothing can be
				// exchanged on it
				ch, st := ep.conn.Channel(r.bg)
				if st.OK() {
					msg := payload(r.plan.Nonce, probeChan, 0, 0, 0, 32)
					st = ch.Send(r.bg, msg)
					if st.OK() {
						_, st = ch.Receive(r.bg)
					}
					ch.Free()
					if st.OK() {
						simrt.Fail("C09-dead-conn-usable", "endpoint %d: a message exchange on a closed connection succeeded", i)
					}
				}
			}
		case ep.client != nil:
			if ep.kind == "auto" {
				// reconnects by itself: at most the dial timeout + the 1 s back-off cap + latency
				bound := time.Duration(r.plan.Opt.DialTimeoutMs)*time.Millisecond + 3*time.Second
				if !waitFlagFor(ep.client.Connected(), bound) {
					simrt.Fail("C09-no-reconnect", "endpoint %d: the auto-connect client is not connected %v after the fault although the server is listening", i, bound)
				}
			}
			st := r.probeOnce(ep.client.Channel)
			if !st.OK() {
				// a connection that died during the probe itself is not the client's fault; try once more
				st = r.probeOnce(ep.client.Channel)
			}
			if !st.OK() {
				simrt.Fail("C09-no-recovery", "endpoint %d (%s client): a call after the fault failed although the server is reachable: %s", i, ep.kind, stName(st))
			}
		}
	}
}

func (r *flowRun) probeOnce(open opener) status.Status {
	ch, st := open(r.bg)
	if !st.OK() {
		return st
	}
	defer ch.Free()
	msg := payload(r.plan.Nonce, probeChan, 0, 0, 0, 32)
	if st := ch.Send(r.bg, msg); !st.OK() {
		return st
	}
	got, st := ch.Receive(r.bg)
	if !st.OK() {
		return st
	}
	if string(got) != string(msg) {
		simrt.Fail("C03-content", "probe echo differs")
	}
	return status.OK
}

func (cutScn) Shrink(plan any) []any {
	cp := plan.(*CutPlan)
	if cp.Enumerate {
		return nil
	}
	var out []any
	if cp.Rpc != nil {
		for _, q := range shrinkRpc(cp.Rpc) {
			out = append(out, &CutPlan{Rpc: q.(*RpcPlan)})
		}
		return out
	}
	for _, q := range shrinkFlow(cp.Flow) {
		out = append(out, &CutPlan{Flow: q.(*FlowPlan)})
	}
	return out
}

var _ = fmt.Sprint
