package simcheck

import (
	"encoding/json"
	"fmt"
	"testing"
	"time"

	"github.com/basecomplextech/baselibrary/alloc/bytequeue"
	"github.com/basecomplextech/baselibrary/async"
	"github.com/basecomplextech/baselibrary/bin"
	"github.com/basecomplextech/baselibrary/status"
	"github.com/basecomplextech/baselibrary/verifsim/simnet"
	"github.com/basecomplextech/baselibrary/verifsim/simrt"
	"github.com/basecomplextech/spec/mpx"
	"github.com/basecomplextech/spec/proto/pmpx"
)

// window (C07): flow-control admission, bound, acknowledgement and liveness.
// Receivers consume only when the orchestrator grants credits, so that at every
// settled point the monitor's window arithmetic is exact.

type WinChan struct {
	C2S          []int `json:"c2s"` // message sizes; the first opens the channel and carries the header
	S2C          []int `json:"s2c"`
	CloseByCli   bool  `json:"close_by_client"`
	ClosePayload int   `json:"close_payload"`
	// SendUs: the senders of a side ([client, server]) give every Send a timeout of this many microseconds
	// and repeat a Send that ended by it (it has sent nothing); 0: no deadline
	SendUs [2]int `json:"send_us,omitempty"`
}

type WinPhase struct {
	Ch, Dir, Credits int
	SleepUs          int `json:",omitempty"` // simulated time that passes before the credits are granted (lets send timeouts expire)
}

type WinPlan struct {
	Env
	Channels []WinChan  `json:"channels"`
	Phases   []WinPhase `json:"phases"`
}

type windowScn struct{}

func (windowScn) Name() string     { return "window" }
func (windowScn) Property() string { return "C07" }

func genWinSizes(g *simrt.Rng, n, w int, first bool) []int {
	var out []int
	for i := 0; i < n; i++ {
		var s int
		switch g.IntN(10) {
		case 0:
			s = 1
		case 1:
			s = w/2 - 1
		case 2:
			s = w / 2
		case 3:
			s = w/2 + 1
		case 4:
			s = w - 1
		case 5:
			s = w
		case 6:
			s = w + 1
		case 7:
			s = 2 * w
		case 8:
			s = 3*w + 5
		default:
			s = 1 + g.IntN(2*w+2)
		}
		if s < 1 {
			s = 1
		}
		if i == 0 && first && s < hdrSize {
			s = hdrSize + g.IntN(4)
		}
		out = append(out, s)
	}
	return out
}

func (windowScn) Generate(g *simrt.Rng, tier string) any {
	p := &WinPlan{Env: genEnv(g, tier)}
	// the window is the only thing that may block a sender here
	p.Opt.Compression = false
	p.Opt.WriteQueue = 16 << 20
	p.Net.BufCap = 64 << 20
	p.Net.LatencyMinUs, p.Net.LatencyMaxUs, p.Net.DialLatUs = 0, 0, 0
	wset := []int{1, 2, 3, 4, 5, 6, 7, 8, 9, 15, 16, 17, 31, 32, 33, 63, 64, 65, 100, 127, 128, 255, 256, 1000, 1023, 1024, 4096, 65535}
	switch g.IntN(4) {
	case 0:
		p.Opt.Window = 1 + g.IntN(64)
	case 1:
		p.Opt.Window = 1 + g.IntN(4096)
	default:
		p.Opt.Window = wset[g.IntN(len(wset))]
	}
	w := p.Opt.Window
	nCh := 1 + g.IntN(3)
	maxMsg := 12
	if tier == "thorough" {
		maxMsg = 32
	}
	if w > 4096 {
		maxMsg = 6
	}
	for i := 0; i < nCh; i++ {
		c := WinChan{
			C2S:        genWinSizes(g, 1+g.IntN(maxMsg), w, true),
			S2C:        genWinSizes(g, g.IntN(maxMsg+1), w, false),
			CloseByCli: g.Bool(0.5),
		}
		if g.Bool(0.6) {
			c.ClosePayload = genWinSizes(g, 1, w, false)[0]
		}
		for side := 0; side < 2; side++ {
			if g.Bool(0.15) {
				c.SendUs[side] = simrt.Pick(g, 1, 30, 1000, 20000)
			}
		}
		p.Channels = append(p.Channels, c)
	}
	nPh := 2 + g.IntN(3*maxMsg)
	for i := 0; i < nPh; i++ {
		ph := WinPhase{Ch: g.IntN(nCh), Dir: g.IntN(2), Credits: g.IntN(4)}
		if g.Bool(0.3) {
			ph.SleepUs = simrt.Pick(g, 5, 100, 5000, 100000)
		}
		p.Phases = append(p.Phases, ph)
	}
	return p
}

func (windowScn) Decode(raw json.RawMessage) (any, error) {
	p := &WinPlan{}
	err := json.Unmarshal(raw, p)
	return p, err
}

// winDir is the monitor state of one (channel, direction).
type winDir struct {
	sizes      []int
	closeSize  int // payload of the closing SendAndClose in this direction (0: none / not closer)
	admitted   int64
	nSent      int
	pending    int // size of the Send in progress (0: none)
	pendingIdx int
	ackDeliv   int64 // window deltas read by the sender's socket
	ackWritten int64 // window deltas written by the receiver's socket
	consumed   int64
	nRecv      int
	credits    int
	unlimited  bool
	maxOut     int64
	ended      bool
	closed     bool // the closing frame has been sent or received: acknowledgements may stop
}

type winRun struct {
	p        *WinPlan
	w        int64
	d        [][2]*winDir
	ids      map[bin.Bin128]int
	bg       async.CancelContext
	log      *recLogger
	srvDone  []bool
	cliDone  []bool
	stranded int
	probes   map[string]int64
	handlers int

	errsAtTeardown int
	tornDown       bool
}

func (r *winRun) half() int64 { return r.w / 2 }

func (r *winRun) threshold(n int) int64 {
	t := int64(n)
	if r.half() < t {
		t = r.half()
	}
	return t
}

func (windowScn) Run(t *testing.T, seed uint64, plan any, o RunOpts) *Report {
	p := plan.(*WinPlan)
	// invariants of this scenario (also for shrunk plans): only the window may block a sender
	p.Opt.Compression = false
	p.Opt.WriteQueue = 16 << 20
	p.Net.BufCap = 64 << 20
	p.Net.LatencyMinUs, p.Net.LatencyMaxUs, p.Net.DialLatUs = 0, 0, 0
	r := &winRun{p: p, w: int64(p.Opt.Window), ids: map[bin.Bin128]int{}, probes: map[string]int64{}}
	for _, c := range p.Channels {
		d0 := &winDir{sizes: c.C2S}
		d1 := &winDir{sizes: c.S2C}
		if c.CloseByCli {
			d0.closeSize = c.ClosePayload
		} else {
			d1.closeSize = c.ClosePayload
		}
		r.d = append(r.d, [2]*winDir{d0, d1})
	}
	r.srvDone = make([]bool, len(p.Channels))
	r.cliDone = make([]bool, len(p.Channels))
	cfg := p.Env.simConfig(seed)
	o.apply(&cfg)
	cfg.OnIdle = func() { r.stranded = bytequeue.VerifStranded() }
	var net *simnet.Net
	res := simrt.Run(t, cfg, func() { net = r.main() })
	rep := newReport(res)
	if net != nil {
		rep.addNet(net)
	}
	for k, v := range r.probes {
		rep.count("probe:"+k, v)
	}
	rep.count("channels", int64(len(p.Channels)))
	if rep.Inconclusive != "" || len(rep.Violations) > 0 {
		return rep
	}
	if res.Deadlock {
		if r.stranded > 0 {
			rep.violate("F1-bytequeue-lost-wakeup", "deadlock with %d byte queue(s) holding unread data in a later block while the reader is parked without a wake-up token; blocked: %v", r.stranded, res.Blocked)
			return rep
		}
		rep.violate("C07-deadlock", "both sides wait forever although receivers keep consuming (window %d): blocked: %v; state: %s", r.w, res.Blocked, r.dump())
		return rep
	}
	if !r.tornDown {
		r.errsAtTeardown = len(r.log.errors)
	}
	for _, l := range r.log.errors[:r.errsAtTeardown] {
		rep.violate("C07-library-error", "the library logged an error on a healthy run: %s", trunc(l, 300))
		break
	}
	return rep
}

func (r *winRun) dump() string {
	s := ""
	for i, dd := range r.d {
		for dir, d := range dd {
			s += fmt.Sprintf("[ch%d d%d sent=%d/%d admitted=%d pending=%d ackDeliv=%d ackWritten=%d consumed=%d recv=%d] ",
				i, dir, d.nSent, len(d.sizes), d.admitted, d.pending, d.ackDeliv, d.ackWritten, d.consumed, d.nRecv)
		}
	}
	return s
}

func (r *winRun) onFrame(written bool) func(f *frameEv) {
	return func(f *frameEv) {
		switch f.Code {
		case pmpx.Code_ChannelOpen:
			if h, ok := parseHeader(f.Data); ok && h.nonce == r.p.Nonce && h.ch < len(r.d) {
				r.ids[f.ID] = h.ch
			}
		case pmpx.Code_ChannelWindow:
			ch, ok := r.ids[f.ID]
			if !ok {
				return
			}
			// an update travelling in direction f.Dir acknowledges data of the opposite direction
			d := r.d[ch][1-f.Dir]
			if written {
				d.ackWritten += int64(f.Delta)
				if f.Delta <= 0 {
					simrt.Fail("C07-bad-delta", "channel %d: window update with delta %d", ch, f.Delta)
				}
			} else {
				d.ackDeliv += int64(f.Delta)
			}
		case pmpx.Code_ChannelClose:
			if ch, ok := r.ids[f.ID]; ok {
				r.d[ch][0].closed = true
				r.d[ch][1].closed = true
			}
		}
	}
}

func (r *winRun) main() *simnet.Net {
	p := r.p
	net := p.Env.install()
	wr, rd := newWireMon(false), newWireMon(false)
	wr.onFrame, rd.onFrame = r.onFrame(true), r.onFrame(false)
	net.Tap = wr.feed
	net.TapRead = rd.feed
	r.log = newRecLogger()
	r.bg = async.NewContext()
	opts := p.Opt.options()
	srv := mpx.NewServer(simAddr, mpx.HandleFunc(r.handler), r.log, opts)
	srv.Start()
	waitFlag(srv.Listening())
	conn, st := mpx.Connect(r.bg, simAddr, r.log, opts)
	if !st.OK() {
		simrt.Fail("C07-connect-failed", "connect: %s", stName(st))
	}
	var g group
	for i := range p.Channels {
		i := i
		g.goTask(fmt.Sprintf("ch%d", i), func() { r.client(i, conn) })
	}
	// phases: grant credits, settle, evaluate
	for _, ph := range p.Phases {
		if ph.SleepUs > 0 {
			hSleep(time.Duration(ph.SleepUs) * time.Microsecond)
		}
		r.d[ph.Ch][ph.Dir].credits += ph.Credits
		r.settle(net)
		r.evalSettled()
	}
	for _, dd := range r.d {
		dd[0].unlimited = true
		dd[1].unlimited = true
	}
	g.wait("window.join-clients")
	hWaitCond("window.join-handlers", func() bool {
		for i := range r.srvDone {
			if !r.srvDone[i] {
				return false
			}
		}
		return true
	})
	r.errsAtTeardown = len(r.log.errors)
	r.tornDown = true
	conn.Close()
	simrt.Recv(0, srv.Stop())
	hWaitQuiescent("window.teardown")
	r.bg.Cancel()
	hWaitQuiescent("window.teardown2")
	return net
}

func (r *winRun) settle(net *simnet.Net) {
	for {
		hWaitQuiescent("window.settle")
		if !net.InFlight() {
			return
		}
		hSleep(1000)
	}
}

// evalSettled runs the exact oracles at a point where nothing is runnable and nothing is in flight.
func (r *winRun) evalSettled() {
	if bytequeue.VerifStranded() > 0 {
		simrt.Fail("F1-bytequeue-lost-wakeup", "a byte queue holds unread data in a later block while its reader is parked without a wake-up token (settled point); state: %s", r.dump())
	}
	r.probes["settled_points"]++
	for i, dd := range r.d {
		for dir, d := range dd {
			if d.ackWritten != d.ackDeliv {
				simrt.Fail("C07-monitor", "internal: acknowledgements written %d != delivered %d at a settled point (ch%d d%d)", d.ackWritten, d.ackDeliv, i, dir)
			}
			free := r.w - d.admitted + d.ackDeliv
			if d.pending > 0 {
				r.probes["blocked_sends_at_settled_points"]++
				exempt := dir == 0 && d.pendingIdx == 0
				if !exempt && free >= r.threshold(d.pending) {
					simrt.Fail("C07-missed-admission", "channel %d dir %d: Send #%d of %d bytes is still blocked at a settled point although the free window is %d (window %d, half %d): a window update did not wake it; state: %s",
						i, dir, d.pendingIdx, d.pending, free, r.w, r.half(), r.dump())
				}
			}
			if d.ackWritten > d.consumed {
				simrt.Fail("C07-ack-unconsumed", "channel %d dir %d: %d bytes acknowledged but only %d consumed by the receiver", i, dir, d.ackWritten, d.consumed)
			}
			if !d.closed {
				residual := d.consumed - d.ackWritten
				lim := r.half()
				if lim < 1 {
					lim = 1
				}
				if residual >= lim {
					simrt.Fail("C07-ack-missing", "channel %d dir %d: receiver consumed %d bytes, acknowledged %d: %d unacknowledged bytes >= half window %d at a settled point (window %d)",
						i, dir, d.consumed, d.ackWritten, residual, r.half(), r.w)
				}
			}
		}
	}
}

// sendRetry runs a Send under a timeout of its own and repeats it while it ends by that timeout alone.
func (r *winRun) sendRetry(us int, f func(ctx async.Context) status.Status) status.Status {
	if us == 0 {
		return f(r.bg)
	}
	for {
		own := async.NextTimeoutContext(r.bg, time.Duration(us)*time.Microsecond)
		st := f(own)
		expired := own.Done()
		own.Free()
		if !st.OK() && expired && !r.bg.Done() && st.Code == status.CodeTimeout {
			r.probes["sends_repeated_after_own_deadline"]++
			if us < 200_000 {
				us = us*2 + 1
			}
			continue
		}
		return st
	}
}

// send performs one monitored Send.
func (r *winRun) send(i, dir, k, size int, closing bool, f func([]byte) status.Status) bool {
	d := r.d[i][dir]
	b := payload(r.p.Nonce, i, dir, 0, k, size)
	before := d.admitted
	d.pending, d.pendingIdx = size, k
	st := f(b)
	d.pending = 0
	simrt.Logf("ch%d d%d send #%d (%d) -> %s", i, dir, k, size, stName(st))
	if !st.OK() {
		simrt.Fail("C07-send-failed", "channel %d dir %d: Send #%d returned %s on a healthy channel", i, dir, k, stName(st))
	}
	d.admitted += int64(size)
	d.nSent++
	exempt := closing || (dir == 0 && k == 0)
	if !exempt {
		// the sender's true free window is at most W - admitted_before + (updates delivered to its socket)
		freeM := r.w - before + d.ackDeliv
		if freeM < r.threshold(size) {
			simrt.Fail("C07-admitted-beyond-window", "channel %d dir %d: Send #%d of %d bytes was admitted with a free window of at most %d (window %d, already admitted %d, acknowledged %d); it may be admitted only when free >= min(size, half window) = %d",
				i, dir, k, size, freeM, r.w, before, d.ackDeliv, r.threshold(size))
		}
		out := d.admitted - d.ackDeliv
		if out > d.maxOut {
			d.maxOut = out
		}
		bound := r.w
		if b2 := r.w - r.half() + int64(size); b2 > bound {
			bound = b2
		}
		if out > bound {
			simrt.Fail("C07-bound", "channel %d dir %d: %d unacknowledged bytes outstanding after Send #%d (%d bytes), bound max(W, W - W/2 + size) = %d", i, dir, out, k, size, bound)
		}
		if r.w-before+d.ackDeliv < int64(size) {
			r.probes["oversize_admissions"]++
		}
	}
	return true
}

func (r *winRun) recvLoop(i, dir int, ch mpx.Channel) {
	d := r.d[i][dir]
	want := len(d.sizes)
	if d.closeSize > 0 {
		want++
	}
	for {
		hWaitCond("window.credit", func() bool { return d.unlimited || d.credits > 0 })
		if !d.unlimited {
			d.credits--
		}
		data, st := ch.Receive(r.bg)
		if !st.OK() {
			d.ended = true
			simrt.Logf("ch%d d%d recv end %s after %d", i, dir, stName(st), d.nRecv)
			if d.nRecv != want {
				simrt.Fail("C03-incomplete", "channel %d dir %d: end status %s after %d of %d messages", i, dir, stName(st), d.nRecv, want)
			}
			return
		}
		size := d.closeSize
		if d.nRecv < len(d.sizes) {
			size = d.sizes[d.nRecv]
		}
		if d.nRecv >= want || len(data) != size {
			simrt.Fail("C03-content", "channel %d dir %d: message #%d has %d bytes, expected %d", i, dir, d.nRecv, len(data), size)
		}
		d.consumed += int64(len(data))
		d.nRecv++
		simrt.Logf("ch%d d%d recv #%d (%d)", i, dir, d.nRecv-1, len(data))
	}
}

func (r *winRun) client(i int, conn mpx.Conn) {
	c := r.p.Channels[i]
	ch, st := conn.Channel(r.bg)
	if !st.OK() {
		simrt.Fail("C07-open-failed", "channel %d: %s", i, stName(st))
	}
	var g group
	g.goTask(fmt.Sprintf("ch%d-csend", i), func() {
		for k, s := range c.C2S {
			r.send(i, 0, k, s, false, func(b []byte) status.Status { return r.sendRetry(c.SendUs[0], func(ctx async.Context) status.Status { return ch.Send(ctx, b) }) })
		}
	})
	if c.CloseByCli {
		// the client closes after it has sent everything and received everything
		g.goTask(fmt.Sprintf("ch%d-crecv", i), func() {
			d := r.d[i][1]
			for d.nRecv < len(d.sizes) {
				hWaitCond("window.credit", func() bool { return d.unlimited || d.credits > 0 })
				if !d.unlimited {
					d.credits--
				}
				data, st := ch.Receive(r.bg)
				if !st.OK() || len(data) != d.sizes[d.nRecv] {
					simrt.Fail("C03-content", "channel %d dir 1: message #%d: status %s, %d bytes, expected %d", i, d.nRecv, stName(st), len(data), d.sizes[d.nRecv])
				}
				d.consumed += int64(len(data))
				d.nRecv++
			}
		})
		g.wait("window.client.join")
		if c.ClosePayload > 0 {
			r.send(i, 0, len(c.C2S), c.ClosePayload, true, func(b []byte) status.Status { return ch.SendAndClose(r.bg, b) })
		} else {
			ch.SendAndClose(r.bg, nil)
		}
	} else {
		g.goTask(fmt.Sprintf("ch%d-crecv", i), func() { r.recvLoop(i, 1, ch) })
		g.wait("window.client.join")
	}
	ch.Free()
	r.cliDone[i] = true
}

func (r *winRun) handler(ctx mpx.Context, ch mpx.Channel) status.Status {
	hbAcquire()
	defer hbRelease()
	first, st := ch.Receive(r.bg)
	if !st.OK() {
		simrt.Fail("C07-open-lost", "handler first receive: %s", stName(st))
	}
	h, ok := parseHeader(first)
	if !ok || h.nonce != r.p.Nonce || h.ch >= len(r.d) {
		simrt.Fail("C03-corrupt", "handler got a foreign opening payload")
	}
	i := h.ch
	c := r.p.Channels[i]
	r.handlers++
	d0 := r.d[i][0]
	d0.consumed += int64(len(first))
	d0.nRecv++
	var g group
	g.goTask(fmt.Sprintf("ch%d-ssend", i), func() {
		for k, s := range c.S2C {
			r.send(i, 1, k, s, false, func(b []byte) status.Status { return r.sendRetry(c.SendUs[1], func(ctx async.Context) status.Status { return ch.Send(ctx, b) }) })
		}
	})
	if !c.CloseByCli {
		// the server closes after it has sent everything and received everything
		for d0.nRecv < len(d0.sizes) {
			hWaitCond("window.credit", func() bool { return d0.unlimited || d0.credits > 0 })
			if !d0.unlimited {
				d0.credits--
			}
			data, st := ch.Receive(r.bg)
			if !st.OK() || len(data) != d0.sizes[d0.nRecv] {
				simrt.Fail("C03-content", "channel %d dir 0: message #%d: status %s, %d bytes, expected %d", i, d0.nRecv, stName(st), len(data), d0.sizes[d0.nRecv])
			}
			d0.consumed += int64(len(data))
			d0.nRecv++
		}
		g.wait("window.handler.join")
		if c.ClosePayload > 0 {
			r.send(i, 1, len(c.S2C), c.ClosePayload, true, func(b []byte) status.Status { return ch.SendAndClose(r.bg, b) })
		} else {
			ch.SendAndClose(r.bg, nil)
		}
	} else {
		r.recvLoop(i, 0, ch)
		g.wait("window.handler.join")
	}
	r.srvDone[i] = true
	return status.OK
}

func (windowScn) Shrink(plan any) []any {
	p := plan.(*WinPlan)
	clone := func() *WinPlan {
		b, _ := json.Marshal(p)
		q := &WinPlan{}
		json.Unmarshal(b, q)
		return q
	}
	var out []any
	if len(p.Channels) > 1 {
		for i := range p.Channels {
			q := clone()
			q.Channels = append(q.Channels[:i], q.Channels[i+1:]...)
			var ph []WinPhase
			for _, x := range q.Phases {
				if x.Ch == i {
					continue
				}
				if x.Ch > i {
					x.Ch--
				}
				ph = append(ph, x)
			}
			q.Phases = ph
			out = append(out, q)
		}
	}
	if len(p.Phases) > 0 {
		q := clone()
		q.Phases = q.Phases[:len(q.Phases)/2]
		out = append(out, q)
	}
	for i, c := range p.Channels {
		if len(c.S2C) > 0 {
			q := clone()
			q.Channels[i].S2C = c.S2C[:len(c.S2C)/2]
			out = append(out, q)
		}
		if len(c.C2S) > 1 {
			q := clone()
			q.Channels[i].C2S = c.C2S[:(len(c.C2S)+1)/2]
			out = append(out, q)
		}
		if c.ClosePayload > 0 {
			q := clone()
			q.Channels[i].ClosePayload = 0
			out = append(out, q)
		}
	}
	out = append(out, shrinkEnv(p, func(q any) *Env { return &q.(*WinPlan).Env }, func() any { return clone() })...)
	return out
}
