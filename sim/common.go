package simcheck

import (
	"encoding/binary"
	"fmt"
	"strings"
	"time"
	"unsafe"

	"github.com/basecomplextech/baselibrary/async"
	"github.com/basecomplextech/baselibrary/logging"
	"github.com/basecomplextech/baselibrary/status"
	"github.com/basecomplextech/baselibrary/units"
	"github.com/basecomplextech/baselibrary/verifsim/simnet"
	"github.com/basecomplextech/baselibrary/verifsim/simpool"
	"github.com/basecomplextech/baselibrary/verifsim/simrt"
	"github.com/basecomplextech/spec/mpx"
)

// ---------------------------------------------------------------- plans

// SchedPlan are the scheduler knobs of one run.
type SchedPlan struct {
	Policy    int     `json:"policy"`
	PYield    float64 `json:"p_yield"`
	PCTDepth  int     `json:"pct_depth,omitempty"`
	PCTLength int     `json:"pct_length,omitempty"`
	SiteMask  uint64  `json:"site_mask"`
	HotMod    int     `json:"hot_mod,omitempty"` // sites with id % HotMod == HotRem always pre-empt
	HotRem    int     `json:"hot_rem,omitempty"`
	// spawn lag: the parent of a selected `go` statement stays behind the goroutine it started
	SpawnLag  int `json:"spawn_lag,omitempty"`
	SpawnMod  int `json:"spawn_mod,omitempty"`
	SpawnSalt int `json:"spawn_salt,omitempty"`
}

// NetPlan are the network knobs and planned faults.
type NetPlan struct {
	LatencyMinUs int            `json:"latency_min_us"`
	LatencyMaxUs int            `json:"latency_max_us"`
	SegMax       int            `json:"seg_max"`
	ReadMax      int            `json:"read_max"`
	ShortRead    float64        `json:"short_read"`
	BufCap       int            `json:"buf_cap"`
	DialLatUs    int            `json:"dial_lat_us"`
	Faults       []simnet.Fault `json:"faults,omitempty"`
}

// OptPlan are the mpx options of a run.
type OptPlan struct {
	Window        int  `json:"window"`
	WriteQueue    int  `json:"write_queue"`
	ReadBuf       int  `json:"read_buf"`
	WriteBuf      int  `json:"write_buf"`
	Compression   bool `json:"compression"`
	MaxConns      int  `json:"max_conns"`
	ConnChannels  int  `json:"conn_channels"`
	DialTimeoutMs int  `json:"dial_timeout_ms"`
}

// PoolPlan selects the pool behaviour.
type PoolPlan struct {
	Policy int  `json:"policy"`
	Poison bool `json:"poison"`
}

// Env is the part of a plan every scenario shares.
type Env struct {
	Sched SchedPlan `json:"sched"`
	Net   NetPlan   `json:"net"`
	Opt   OptPlan   `json:"opt"`
	Pool  PoolPlan  `json:"pool"`
	Nonce uint32    `json:"nonce"`
}

func (o OptPlan) options() mpx.Options {
	return mpx.Options{
		ClientMaxConns:     o.MaxConns,
		ClientConnChannels: o.ConnChannels,
		ClientDialTimeout:  time.Duration(o.DialTimeoutMs) * time.Millisecond,
		Compression:        o.Compression,
		ChannelWindowSize:  units.Bytes(o.Window),
		ReadBufferSize:     units.Bytes(o.ReadBuf),
		WriteBufferSize:    units.Bytes(o.WriteBuf),
		WriteQueueSize:     units.Bytes(o.WriteQueue),
	}
}

func (n NetPlan) params() simnet.Params {
	return simnet.Params{
		LatencyMin:     time.Duration(n.LatencyMinUs) * time.Microsecond,
		LatencyMax:     time.Duration(n.LatencyMaxUs) * time.Microsecond,
		SegMax:         n.SegMax,
		ReadMax:        n.ReadMax,
		ShortRead:      n.ShortRead,
		BufCap:         n.BufCap,
		DialLatencyMax: time.Duration(n.DialLatUs) * time.Microsecond,
	}
}

func (e *Env) simConfig(seed uint64) simrt.Config {
	return simrt.Config{
		Seed:      seed,
		Policy:    e.Sched.Policy,
		PYield:    e.Sched.PYield,
		PCTDepth:  e.Sched.PCTDepth,
		PCTLength: e.Sched.PCTLength,
		SiteMask:  e.Sched.SiteMask,
		HotMod:    e.Sched.HotMod,
		HotRem:    e.Sched.HotRem,
		SpawnLag:  e.Sched.SpawnLag,
		SpawnMod:  e.Sched.SpawnMod,
		SpawnSalt: e.Sched.SpawnSalt,
	}
}

// install applies the environment at the start of a run (inside the bubble).
func (e *Env) install() *simnet.Net {
	n := simnet.Start(e.Net.params())
	for _, f := range e.Net.Faults {
		n.AddFault(f)
	}
	simpool.Policy = e.Pool.Policy
	simpool.Poison = e.Pool.Poison
	return n
}

// genEnv draws the configuration swarm of a run.
func genEnv(g *simrt.Rng, tier string) Env {
	var e Env
	e.Nonce = uint32(g.Uint64())
	// scheduler
	switch g.IntN(10) {
	case 0, 1:
		e.Sched.Policy = simrt.PolicyRandom
		e.Sched.PYield = 0 // run-to-block
	case 2, 3, 4:
		e.Sched.Policy = simrt.PolicyPCT
		e.Sched.PCTDepth = 1 + g.IntN(3)
		e.Sched.PCTLength = simrt.Pick(g, 200, 1000, 5000, 20000)
	default:
		e.Sched.Policy = simrt.PolicyRandom
		e.Sched.PYield = simrt.Pick(g, 0.002, 0.01, 0.05, 0.2, 0.5)
	}
	switch g.IntN(3) {
	case 0:
		e.Sched.SiteMask = ^uint64(0)
	case 1:
		e.Sched.SiteMask = g.Uint64() | g.Uint64()
	default:
		e.Sched.SiteMask = g.Uint64()
	}
	if g.Bool(0.3) {
		e.Sched.HotMod = simrt.Pick(g, 50, 200, 800)
		e.Sched.HotRem = g.IntN(e.Sched.HotMod)
	}
	// network
	if g.Bool(0.6) {
		e.Net.LatencyMaxUs = simrt.Pick(g, 10, 200, 2000, 50000)
		e.Net.LatencyMinUs = g.IntN(e.Net.LatencyMaxUs + 1)
	}
	if g.Bool(0.5) {
		e.Net.SegMax = simrt.Pick(g, 1, 3, 16, 100, 1400)
	}
	if g.Bool(0.4) {
		e.Net.ReadMax = simrt.Pick(g, 1, 2, 7, 64, 512)
	}
	if g.Bool(0.4) {
		e.Net.ShortRead = simrt.Pick(g, 0.1, 0.5, 0.9)
	}
	e.Net.BufCap = simrt.Pick(g, 16, 64, 1024, 65536, 0, 0)
	e.Net.DialLatUs = simrt.Pick(g, 0, 0, 100, 5000)
	// options
	e.Opt.Window = simrt.Pick(g, 1, 2, 3, 7, 64, 1000, 65535, 1<<20, 16<<20, 1+g.IntN(4096))
	e.Opt.WriteQueue = simrt.Pick(g, 1, 16, 64, 4096, 16<<20)
	e.Opt.ReadBuf = simrt.Pick(g, 16, 64, 4096, 32768)
	e.Opt.WriteBuf = simrt.Pick(g, 16, 64, 4096, 32768)
	e.Opt.Compression = g.Bool(0.5)
	e.Opt.MaxConns = 1 + g.IntN(4)
	e.Opt.ConnChannels = g.IntN(5)
	e.Opt.DialTimeoutMs = simrt.Pick(g, 50, 500, 2000)
	// pools
	e.Pool.Policy = g.IntN(simpool.NumPolicies)
	e.Pool.Poison = g.Bool(0.5)
	if g.Bool(0.15) {
		// the child overtakes its parent: whoever starts a goroutine stays behind it for a while
		e.Sched.SpawnLag = simrt.Pick(g, 3, 5, 7)
		e.Sched.SpawnMod = simrt.Pick(g, 1, 2, 3)
		e.Sched.SpawnSalt = g.IntN(1 << 16)
	}
	return e
}

// sizeAlphabet returns message sizes around the interesting boundaries of window w.
func sizeAlphabet(g *simrt.Rng, w int, maxSize int) int {
	cands := []int{1, 2, 3, w/2 - 1, w / 2, w/2 + 1, w - 1, w, w + 1, 2 * w, 3*w + 5, 16, 17, 100, 1000, 1 + g.IntN(300),
		880 + g.IntN(150)} // the last: frames that (nearly) use up a 1 KiB block of the write / receive queues
	for tries := 0; tries < 8; tries++ {
		s := cands[g.IntN(len(cands))]
		if s >= 1 && s <= maxSize {
			return s
		}
	}
	return 1 + g.IntN(64)
}

// ---------------------------------------------------------------- payloads

// payload returns the unique, reproducible content of message (ch, dir, sender, seq)
// with the given size. When size >= hdrSize it starts with a self-describing header.
const hdrSize = 16

func payload(nonce uint32, ch, dir, sender, seq, size int) []byte {
	b := make([]byte, size)
	// body: xorshift stream keyed by the identity, with compressible runs
	x := uint64(nonce)<<32 ^ uint64(ch+1)*0x9e3779b97f4a7c15 ^ uint64(dir+1)<<60 ^ uint64(sender+1)<<52 ^ uint64(seq+1)*0xbf58476d1ce4e5b9
	if x == 0 {
		x = 1
	}
	i := 0
	for i < size {
		x ^= x << 13
		x ^= x >> 7
		x ^= x << 17
		if size-i >= 8 && byte(x>>40) >= 24 {
			binary.LittleEndian.PutUint64(b[i:], x)
			i += 8
			continue
		}
		b[i] = byte(x >> 24)
		i++
		if byte(x>>40) < 24 { // a run of repeated bytes: compressible stretches
			run := int(byte(x>>48)) % 97
			rb := b[i-1]
			for ; run > 0 && i < size; run-- {
				b[i] = rb
				i++
			}
		}
	}
	if size >= hdrSize {
		binary.BigEndian.PutUint32(b[0:], nonce)
		binary.BigEndian.PutUint16(b[4:], uint16(ch))
		b[6] = byte(dir)
		b[7] = byte(sender)
		binary.BigEndian.PutUint32(b[8:], uint32(seq))
		binary.BigEndian.PutUint32(b[12:], uint32(size))
	}
	return b
}

type header struct {
	nonce            uint32
	ch, dir, sender  int
	seq, size        int
}

func parseHeader(b []byte) (h header, ok bool) {
	if len(b) < hdrSize {
		return h, false
	}
	h.nonce = binary.BigEndian.Uint32(b[0:])
	h.ch = int(binary.BigEndian.Uint16(b[4:]))
	h.dir = int(b[6])
	h.sender = int(b[7])
	h.seq = int(binary.BigEndian.Uint32(b[8:]))
	h.size = int(binary.BigEndian.Uint32(b[12:]))
	return h, true
}

// ---------------------------------------------------------------- logger

// recLogger records what the library logs; error records matter to the oracles.
type recLogger struct {
	base
	errors   []string
	expected int
}

type base = logging.Logger

func newRecLogger() *recLogger { return &recLogger{base: logging.Null} }

func (l *recLogger) Logger(name string) logging.Logger          { return l }
func (l *recLogger) WithFields(kv ...any) logging.Logger         { return l }
func (l *recLogger) Enabled(level logging.Level) bool            { return level >= logging.LevelError }
func (l *recLogger) TraceOn() bool                               { return false }
func (l *recLogger) DebugOn() bool                               { return false }
func (l *recLogger) InfoOn() bool                                { return false }
func (l *recLogger) NoticeOn() bool                              { return false }
func (l *recLogger) WarnOn() bool                                { return true }
func (l *recLogger) ErrorOn() bool                               { return true }
func (l *recLogger) Trace(msg string, kv ...any)                 {}
func (l *recLogger) Debug(msg string, kv ...any)                 {}
func (l *recLogger) Info(msg string, kv ...any)                  {}
func (l *recLogger) Notice(msg string, kv ...any)                {}
func (l *recLogger) TraceStatus(m string, s status.Status, kv ...any)  {}
func (l *recLogger) DebugStatus(m string, s status.Status, kv ...any)  {}
func (l *recLogger) InfoStatus(m string, s status.Status, kv ...any)   {}
func (l *recLogger) NoticeStatus(m string, s status.Status, kv ...any) {}
func (l *recLogger) Warn(msg string, kv ...any)                  { l.add("warn", msg, status.None, kv) }
func (l *recLogger) WarnStatus(m string, s status.Status, kv ...any) { l.add("warn", m, s, kv) }
func (l *recLogger) Error(msg string, kv ...any)                 { l.add("error", msg, status.None, kv) }
func (l *recLogger) ErrorStatus(m string, s status.Status, kv ...any) { l.add("error", m, s, kv) }
func (l *recLogger) Fatal(msg string, kv ...any)                 { l.add("fatal", msg, status.None, kv) }
func (l *recLogger) FatalStatus(m string, s status.Status, kv ...any) { l.add("fatal", m, s, kv) }

func (l *recLogger) add(level, msg string, st status.Status, kv []any) {
	line := fmt.Sprintf("%s: %s code=%s msg=%q %v", level, msg, st.Code, st.Message, kv)
	// what the harness provokes on purpose is logged by design: a handler's own error
	// status and its sentinel panic
	if msg == "Channel error" && strings.Contains(st.Message, "verif handler error") {
		simrt.Logf("LOG(expected) %s", line)
		l.expected++
		return
	}
	if msg == "Channel panic" && strings.Contains(line, "verif-sentinel-panic") {
		simrt.Logf("LOG(expected) %s", line)
		l.expected++
		return
	}
	if len(l.errors) < 200 {
		l.errors = append(l.errors, line)
	}
	simrt.Logf("LOG %s", line)
}

// ---------------------------------------------------------------- helpers

// Harness tasks are serialised by the simulator's baton, which is hidden from the race detector
// on purpose. What one harness task does before it waits and what another does after it resumes
// is ordered by the test program itself, so every harness-level wait is a release/acquire pair on
// one variable (no-ops without -race). Waits inside library calls (simnet) are not.
var harnessSync byte

func hbRelease() { simrt.RaceRelease(unsafe.Pointer(&harnessSync)) }
func hbAcquire() { simrt.RaceAcquire(unsafe.Pointer(&harnessSync)) }

func hSleep(d time.Duration) { hbRelease(); simrt.Sleep(d); hbAcquire() }
func hWaitCond(site string, pred func() bool) {
	hbRelease()
	simrt.WaitCond(site, pred)
	hbAcquire()
}
func hWaitCondUntil(site string, pred func() bool, dl time.Time) bool {
	hbRelease()
	ok := simrt.WaitCondUntil(site, pred, dl)
	hbAcquire()
	return ok
}
func hWaitQuiescent(site string) { hbRelease(); simrt.WaitQuiescent(site); hbAcquire() }
func hYield(site string)         { hbRelease(); simrt.ForceYield(site); hbAcquire() }
func hGo(name string, fn func()) {
	hbRelease()
	simrt.Go(name, func() {
		hbAcquire()
		defer hbRelease()
		fn()
	})
}

// group joins harness tasks.
type group struct{ n int }

func (g *group) goTask(name string, fn func()) {
	g.n++
	hGo(name, func() {
		defer func() { g.n-- }()
		fn()
	})
}

func (g *group) wait(site string) {
	hWaitCond(site, func() bool { return g.n == 0 })
}

// waitFlag blocks until the flag is set.
func waitFlag(f async.Flag) {
	hbRelease()
	simrt.Select(0, f.Wait())
	hbAcquire()
}

// waitFlagFor waits up to d of simulated time for the flag.
func waitFlagFor(f async.Flag, d time.Duration) bool {
	hbRelease()
	ok := simrt.Select(0, f.Wait(), time.After(d)) == 0
	hbAcquire()
	return ok
}

func stName(st status.Status) string {
	if st.Message == "" {
		return string(st.Code)
	}
	return string(st.Code) + ":" + st.Message
}

func trunc(s string, n int) string {
	if len(s) > n {
		return s[:n] + "..."
	}
	return s
}
