package simcheck

import (
	"bytes"
	"context"
	"encoding/binary"
	"encoding/json"
	"fmt"
	"net"
	"testing"
	"time"

	"github.com/basecomplextech/baselibrary/alloc"
	"github.com/basecomplextech/baselibrary/bin"
	"github.com/basecomplextech/baselibrary/status"
	"github.com/basecomplextech/baselibrary/verifsim/simnet"
	"github.com/basecomplextech/baselibrary/verifsim/simrt"
	"github.com/basecomplextech/spec/mpx"
	"github.com/basecomplextech/spec/proto/pmpx"
)

// hostile (C11): scripted raw peers (a Byzantine transport fault) beside a
// healthy client that keeps the full delivery oracle.

type HostileStep struct {
	Kind string `json:"kind"`
	Size int    `json:"size,omitempty"`
	Arg  int    `json:"arg,omitempty"`
}

type HostilePeer struct {
	Handshake string        `json:"handshake"`
	Steps     []HostileStep `json:"steps"`
	End       string        `json:"end"` // fin | rst | hang
	StartUs   int           `json:"start_us"`
	SplitAll  bool          `json:"split_all"` // write everything byte by byte
}

type HostilePlan struct {
	Flow  *FlowPlan     `json:"flow"` // the healthy client's traffic
	Peers []HostilePeer `json:"peers"`
}

const rawChanBase = 0x8000

// negotiated reports whether a handshake variant is a valid negotiation.
func hsNegotiated(h string) bool {
	switch h {
	case "valid", "split", "unknown_comp", "extra_versions":
		return true
	}
	return false
}

// hsComplete reports whether the offending element of a refused handshake is complete
// (so that the server must close the connection rather than wait for more bytes).
func hsComplete(h string) bool {
	switch h {
	case "wrong_line", "line_nonrequest", "no_versions", "bad_versions", "line_garbage_frame",
		"request_wrong_code", "open_with_request", "request_no_code", "code_without_request", "old_versions", "near_line", "empty_then_request":
		return true
	}
	return false
}

var hostileHandshakes = []string{"valid", "valid", "valid", "split", "unknown_comp", "extra_versions",
	"wrong_line", "wrong_line2", "partial_line", "no_line", "line_garbage_frame", "line_nonrequest", "no_versions", "bad_versions", "silent", "line_only",
	"request_wrong_code", "open_with_request", "request_no_code", "code_without_request", "old_versions", "old_versions", "near_line", "near_line", "empty_then_request"}

var hostileSteps = []string{"open", "open", "open_data", "data", "close", "window", "batch_open_close", "nested_batch", "dup_open",
	"unknown_data", "unknown_window", "unknown_close", "garbage_frame", "truncated_frame", "huge_len", "bitflip_open", "window_neg", "window_huge",
	"empty_frame", "undefined_code", "open_huge_window", "data_after_close", "connect_again", "mutate", "mutate", "mutate_batch"}

type hostileScn struct{}

func (hostileScn) Name() string     { return "hostile" }
func (hostileScn) Property() string { return "C11" }

func (hostileScn) Generate(g *simrt.Rng, tier string) any {
	fp := genFlowPlan(g, tier, []int{EndClientClose, EndClientFree, EndServerClose, EndHandlerOK})
	for i := range fp.Channels {
		c := &fp.Channels[i]
		if !c.enderIsClient() {
			c.EndRecv = len(c.C2S)
		}
	}
	if len(fp.Channels) > 4 {
		fp.Channels = fp.Channels[:4]
	}
	hp := &HostilePlan{Flow: fp}
	n := 1 + g.IntN(4)
	for i := 0; i < n; i++ {
		p := HostilePeer{Handshake: hostileHandshakes[g.IntN(len(hostileHandshakes))], End: simrt.Pick(g, "fin", "rst", "hang"), SplitAll: g.Bool(0.15)}
		if g.Bool(0.4) {
			p.StartUs = simrt.Pick(g, 10, 500, 5000)
		}
		k := g.IntN(8)
		for j := 0; j < k; j++ {
			st := HostileStep{Kind: hostileSteps[g.IntN(len(hostileSteps))], Size: 16 + g.IntN(100), Arg: g.IntN(1 << 16)}
			if st.Kind == "huge_len" {
				st.Arg = simrt.Pick(g, 1<<20, 8<<20, 64<<20)
				if tier == "thorough" && g.Bool(0.1) {
					st.Arg = 256 << 20
				}
			}
			p.Steps = append(p.Steps, st)
		}
		hp.Peers = append(hp.Peers, p)
	}
	return hp
}

func (hostileScn) Decode(raw json.RawMessage) (any, error) {
	p := &HostilePlan{}
	err := json.Unmarshal(raw, p)
	return p, err
}

// classifyScript decides from the bytes a raw peer writes whether they amount to a valid
// negotiation, and if not whether the offending element is complete (so that the server
// has to refuse and close rather than wait for more bytes).
func classifyScript(b []byte) (negotiated, complete bool) {
	i := indexByte(b, '\n')
	if i < 0 {
		return false, false // still inside the first line
	}
	if string(b[:i+1]) != mpx.ProtocolLine {
		return false, true
	}
	rest := b[i+1:]
	if len(rest) < 4 {
		return false, false
	}
	n := int(binary.BigEndian.Uint32(rest))
	if n > 1<<30 || len(rest) < 4+n {
		return false, false // the server is still reading the first frame
	}
	m, _, err := pmpx.ParseMessage(rest[4 : 4+n])
	if err != nil || m.Code() != pmpx.Code_ConnectRequest {
		return false, true
	}
	vs := m.ConnectRequest().Versions()
	for k := 0; k < vs.Len(); k++ {
		if vs.Get(k) == pmpx.Version_Version10 {
			return true, true
		}
	}
	return false, true
}

type rawPeerState struct {
	negotiated, complete bool
	handlerCalls int
	closedByPeer bool // the raw peer saw EOF / an error from the server
	sawResponse  bool
	respOK       bool
	done         bool
	wroteAll     bool
}

type hostileRun struct {
	hp    *HostilePlan
	fr    *flowRun
	peers []*rawPeerState
}

func frameOf(msg pmpx.Message) []byte {
	raw := msg.Unwrap().Raw()
	b := make([]byte, 4+len(raw))
	binary.BigEndian.PutUint32(b, uint32(len(raw)))
	copy(b[4:], raw)
	return b
}

func rawID(peer, k int) bin.Bin128 {
	return bin.Int128(int64(0x7700+peer), int64(k+1))
}

func (h *hostileRun) handshakeBytes(p HostilePeer) []byte {
	line := []byte(mpx.ProtocolLine)
	req := func(in pmpx.ConnectInput) []byte {
		m, err := in.Build()
		if err != nil {
			panic(err)
		}
		return frameOf(m)
	}
	valid := req(pmpx.NewConnectInput())
	switch p.Handshake {
	case "valid", "split":
		return append(line, valid...)
	case "unknown_comp":
		in := pmpx.NewConnectInput()
		in.Compressions = []pmpx.ConnectCompression{pmpx.ConnectCompression(77), pmpx.ConnectCompression(-3)}
		return append(line, req(in)...)
	case "extra_versions":
		in := pmpx.ConnectInput{Versions: []pmpx.Version{pmpx.Version(99), pmpx.Version_Version10, pmpx.Version(7)}}
		return append(line, req(in)...)
	case "wrong_line":
		return append([]byte("GET / HTTP/1.1\n"), valid...)
	case "empty_then_request":
		// one or more empty frames before a perfectly good connect request: the first frame is not a request
		b := append([]byte{}, line...)
		for k := 0; k <= (p.StartUs+len(p.Steps))%3; k++ {
			b = append(b, 0, 0, 0, 0)
		}
		return append(b, valid...)
	case "near_line":
		// first lines that begin like the protocol line and are not it
		lines := []string{"SpecMPX/10\n", "SpecMPX/1x\n", "SpecMPX/1\r\n", "SpecMPX/1 GET / HTTP/1.1\n", "SpecMPX/1.0\n", " SpecMPX/1\n", "SpecMPX/1\x00\n"}
		return append([]byte(lines[(p.StartUs+len(p.Steps))%len(lines)]), valid...)
	case "wrong_line2":
		return append([]byte("SpecMPX/2\n"), valid...)
	case "partial_line":
		return []byte("SpecMPX/")
	case "no_line":
		return valid
	case "line_garbage_frame":
		g := []byte{0, 0, 0, 9, 0xde, 0xad, 0xbe, 0xef, 1, 2, 3, 4, 5}
		return append(line, g...)
	case "line_nonrequest":
		buf := alloc.NewBuffer()
		m, err := pmpx.BuildChannelOpen(pmpx.NewMessageWriterBuffer(buf), rawID(99, 0), []byte("x"), 1000)
		if err != nil {
			panic(err)
		}
		return append(line, frameOf(m)...)
	case "old_versions":
		// only versions the server does not implement, some of them below its own
		lists := [][]pmpx.Version{{9}, {1}, {2, 11}, {9, 8, 7}, {5, 99}}
		return append(line, req(pmpx.ConnectInput{Versions: lists[(p.StartUs+len(p.Steps))%len(lists)]})...)
	case "no_versions":
		return append(line, req(pmpx.ConnectInput{})...)
	case "bad_versions":
		return append(line, req(pmpx.ConnectInput{Versions: []pmpx.Version{pmpx.Version(99), pmpx.Version(0)}})...)
	case "request_wrong_code", "request_no_code", "open_with_request", "code_without_request":
		// first frames that are not a connect request although they look like one in part: a perfectly good
		// connect_request field under another (or no) message code, or the code without the field
		buf := alloc.NewBuffer()
		w := pmpx.NewMessageWriterBuffer(buf)
		switch p.Handshake {
		case "request_wrong_code":
			codes := []pmpx.Code{pmpx.Code_ConnectResponse, pmpx.Code_Batch, pmpx.Code_ChannelOpen, pmpx.Code_ChannelData, pmpx.Code_ChannelWindow, pmpx.Code(77)}
			w.Code(codes[(p.StartUs+len(p.Steps))%len(codes)])
		case "open_with_request":
			w.Code(pmpx.Code_ChannelOpen)
			o := w.ChannelOpen()
			o.Id(rawID(98, 0))
			o.Window(1000)
			o.Data([]byte("x"))
			if err := o.End(); err != nil {
				panic(err)
			}
		case "code_without_request":
			w.Code(pmpx.Code_ConnectRequest)
		}
		if p.Handshake != "code_without_request" {
			r := w.ConnectRequest()
			vs := r.Versions()
			vs.Add(pmpx.Version_Version10)
			if err := vs.End(); err != nil {
				panic(err)
			}
			if err := r.End(); err != nil {
				panic(err)
			}
		}
		m, err := w.Build()
		if err != nil {
			panic(err)
		}
		return append(line, frameOf(m)...)
	case "line_only":
		return line
	case "silent":
		return nil
	}
	panic("unknown handshake " + p.Handshake)
}

// stepBytes builds the bytes of one scripted step.
func (h *hostileRun) stepBytes(peer int, k int, st HostileStep, opened *[]bin.Bin128) []byte {
	nonce := h.hp.Flow.Nonce
	buf := alloc.NewBuffer()
	w := func() pmpx.MessageWriter { return pmpx.NewMessageWriterBuffer(buf) }
	must := func(m pmpx.Message, err error) []byte {
		if err != nil {
			panic(err)
		}
		return frameOf(m)
	}
	pay := func() []byte { return payload(nonce, rawChanBase+peer, 0, 0, k, max(st.Size, hdrSize)) }
	lastID := rawID(peer, 1000+k)
	if len(*opened) > 0 {
		lastID = (*opened)[len(*opened)-1]
	}
	switch st.Kind {
	case "open", "open_data":
		id := rawID(peer, k)
		*opened = append(*opened, id)
		out := must(pmpx.BuildChannelOpen(w(), id, pay(), 1<<16))
		if st.Kind == "open_data" {
			buf2 := alloc.NewBuffer()
			out = append(out, must(pmpx.BuildChannelData(pmpx.NewMessageWriterBuffer(buf2), id, []byte("more data")))...)
		}
		return out
	case "open_huge_window":
		id := rawID(peer, k)
		*opened = append(*opened, id)
		return must(pmpx.BuildChannelOpen(w(), id, pay(), int32(simrtPick(st.Arg, -1, 0, 1<<31-1, -1<<31))))
	case "data":
		return must(pmpx.BuildChannelData(w(), lastID, []byte("some hostile data")))
	case "close":
		return must(pmpx.BuildChannelClose(w(), lastID, []byte("bye")))
	case "data_after_close":
		out := must(pmpx.BuildChannelClose(w(), lastID, nil))
		buf2 := alloc.NewBuffer()
		return append(out, must(pmpx.BuildChannelData(pmpx.NewMessageWriterBuffer(buf2), lastID, []byte("late")))...)
	case "window":
		return must(pmpx.BuildChannelWindow(w(), lastID, int32(1+st.Arg)))
	case "window_neg":
		return must(pmpx.BuildChannelWindow(w(), lastID, -int32(1+st.Arg)))
	case "window_huge":
		return must(pmpx.BuildChannelWindow(w(), lastID, 1<<31-1))
	case "unknown_data":
		return must(pmpx.BuildChannelData(w(), rawID(peer, 5000+k), []byte("nobody home")))
	case "unknown_window":
		return must(pmpx.BuildChannelWindow(w(), rawID(peer, 5000+k), 5))
	case "unknown_close":
		return must(pmpx.BuildChannelClose(w(), rawID(peer, 5000+k), []byte("x")))
	case "dup_open":
		id := lastID
		*opened = append(*opened, id)
		return must(pmpx.BuildChannelOpen(w(), id, pay(), 1<<16))
	case "batch_open_close":
		id := rawID(peer, k)
		b := pmpx.NewBatchBuilder(buf)
		b, err := b.Open(id, pay(), 1<<16)
		if err != nil {
			panic(err)
		}
		b, err = b.Close(id, nil)
		if err != nil {
			panic(err)
		}
		return must(b.Build())
	case "nested_batch":
		// a batch whose element is itself a batch
		inner := pmpx.NewBatchBuilder(alloc.NewBuffer())
		inner, _ = inner.Open(rawID(peer, k), pay(), 1<<16)
		im, err := inner.Build()
		if err != nil {
			panic(err)
		}
		mw := w()
		mw.Code(pmpx.Code_Batch)
		bw := mw.Batch()
		lw := bw.List()
		if err := lw.Add().Merge(im); err != nil {
			panic(err)
		}
		if err := lw.End(); err != nil {
			panic(err)
		}
		if err := bw.End(); err != nil {
			panic(err)
		}
		return must(mw.Build())
	case "garbage_frame":
		b := payload(nonce, 7, 7, 7, k, 8+st.Size)
		out := make([]byte, 4+len(b))
		binary.BigEndian.PutUint32(out, uint32(len(b)))
		copy(out[4:], b)
		return out
	case "truncated_frame":
		f := must(pmpx.BuildChannelData(w(), lastID, pay()))
		return f[:4+(len(f)-4)/2]
	case "huge_len":
		out := make([]byte, 4+64)
		binary.BigEndian.PutUint32(out, uint32(st.Arg))
		return out
	case "bitflip_open":
		id := rawID(peer, k)
		f := must(pmpx.BuildChannelOpen(w(), id, pay(), 1<<16))
		// flip a bit in the trailing table/size area of the encoding (last 24 bytes)
		pos := len(f) - 1 - st.Arg%min(24, len(f)-4)
		f[pos] ^= 1 << (uint(st.Arg>>8) % 8)
		return f
	case "mutate", "mutate_batch":
		// 1-4 byte-level mutations anywhere in the body of a well-formed frame (the length prefix stays right)
		var f []byte
		if st.Kind == "mutate_batch" {
			b := pmpx.NewBatchBuilder(buf)
			b, _ = b.Open(rawID(peer, k), pay(), 1<<16)
			b, _ = b.Close(rawID(peer, k), []byte("x"))
			f = must(b.Build())
		} else {
			id := rawID(peer, k)
			*opened = append(*opened, id)
			f = must(pmpx.BuildChannelOpen(w(), id, pay(), 1<<16))
		}
		g := simrt.NewRng(uint64(st.Arg)*7919+uint64(st.Size), simrt.StreamGen)
		body := f[4:]
		// the payload's header attributes a handler invocation to this peer: leave it intact
		hdrAt := bytes.Index(body, pay()[:hdrSize])
		pick := func() int {
			for {
				i := g.IntN(len(body))
				if hdrAt < 0 || i < hdrAt || i >= hdrAt+hdrSize {
					return i
				}
			}
		}
		for n := 1 + g.IntN(4); n > 0; n-- {
			switch g.IntN(3) {
			case 0:
				body[pick()] = byte(g.IntN(256))
			case 1:
				body[pick()] ^= 1 << uint(g.IntN(8))
			default:
				body[len(body)-1-g.IntN(min(12, len(body)))] = byte(g.IntN(256))
			}
		}
		return f
	case "empty_frame":
		return []byte{0, 0, 0, 0}
	case "undefined_code":
		mw := w()
		mw.Code(pmpx.Code(42))
		return must(mw.Build())
	case "connect_again":
		m, err := pmpx.NewConnectInput().Build()
		if err != nil {
			panic(err)
		}
		return frameOf(m)
	}
	panic("unknown step " + st.Kind)
}

func simrtPick(arg int, vals ...int) int { return vals[arg%len(vals)] }

// rawPeer is the task of one scripted peer.
func (h *hostileRun) rawPeer(i int) {
	p := h.hp.Peers[i]
	ps := h.peers[i]
	defer func() { ps.done = true }()
	if p.StartUs > 0 {
		hSleep(time.Duration(p.StartUs) * time.Microsecond)
	}
	d := &net.Dialer{Timeout: time.Second}
	c, err := simnet.DialContext(d, context.Background(), "tcp", simAddr)
	if err != nil {
		simrt.Fail("C11-dial", "raw peer %d could not connect to a listening server: %v", i, err)
	}
	sc := c.(*simnet.Conn)
	sc.Pair().Tag = "raw"
	// reader: collects what the server says until it closes
	var in []byte
	readerDone := false
	hGo(fmt.Sprintf("raw%d-reader", i), func() {
		buf := make([]byte, 4096)
		for {
			n, err := c.Read(buf)
			in = append(in, buf[:n]...)
			if err != nil {
				ps.closedByPeer = true
				readerDone = true
				return
			}
		}
	})
	write := func(b []byte) bool {
		if p.SplitAll || p.Handshake == "split" {
			for k := range b {
				if _, err := c.Write(b[k : k+1]); err != nil {
					return false
				}
			}
			return true
		}
		_, err := c.Write(b)
		return err == nil
	}
	var opened []bin.Bin128
	script := h.handshakeBytes(p)
	for k, st := range p.Steps {
		script = append(script, h.stepBytes(i, k, st, &opened)...)
	}
	ps.negotiated, ps.complete = classifyScript(script)
	ok := write(script)
	ps.wroteAll = ok
	simrt.Logf("raw%d script written (all=%v)", i, ok)
	// give the server time to react, then look at what it did
	hWaitCondUntil("raw.wait-close", func() bool { return readerDone }, time.Now().Add(2*time.Second))
	// parse the server's answer: line + connect response
	if idx := indexByte(in, '\n'); idx >= 0 && len(in) >= idx+1+4 {
		rest := in[idx+1:]
		n := int(binary.BigEndian.Uint32(rest))
		if len(rest) >= 4+n {
			if m, _, err := pmpx.ParseMessage(rest[4 : 4+n]); err == nil && m.Code() == pmpx.Code_ConnectResponse {
				ps.sawResponse = true
				ps.respOK = m.ConnectResponse().Ok()
			}
		}
	}
	if !ps.negotiated && ps.complete && !readerDone {
		simrt.Fail("C11-refused-not-closed", "raw peer %d (handshake %q): the server neither served nor closed the connection within 2 s after a complete invalid handshake (response seen=%v ok=%v)",
			i, p.Handshake, ps.sawResponse, ps.respOK)
	}
	switch p.End {
	case "fin":
		c.Close()
	case "rst":
		sc.Pair().Reset("raw-peer")
	default:
		// hang: keep the connection until the harness tears everything down
	}
	hWaitCondUntil("raw.wait-close2", func() bool { return readerDone }, time.Now().Add(time.Second))
	if !readerDone {
		c.Close()
	}
}

func indexByte(b []byte, c byte) int {
	for i, x := range b {
		if x == c {
			return i
		}
	}
	return -1
}

func (hostileScn) Run(t *testing.T, seed uint64, plan any, o RunOpts) *Report {
	hp := plan.(*HostilePlan)
	h := &hostileRun{hp: hp}
	for range hp.Peers {
		h.peers = append(h.peers, &rawPeerState{})
	}
	rep := runFlowX(t, seed, hp.Flow, o, "C11", func(r *flowRun) {
		h.fr = r
		r.hostile = true
		r.foreign = func(hd header, first []byte, ctx mpx.Context, ch mpx.Channel) status.Status {
			i := hd.ch - rawChanBase
			if i < 0 || i >= len(h.peers) {
				return status.OK // a damaged payload that parsed: cannot be attributed
			}
			h.peers[i].handlerCalls++
			simrt.Logf("raw%d handler invoked", i)
			if !h.peers[i].negotiated {
				simrt.Fail("C11-served-unnegotiated", "a channel handler ran on the connection of raw peer %d whose handshake %q never negotiated the protocol", i, hp.Peers[i].Handshake)
			}
			// behave like an ordinary handler: echo, drain, leave
			ch.Send(r.bg, first)
			for {
				if _, st := ch.Receive(r.bg); !st.OK() {
					break
				}
			}
			return status.OK
		}
		var pg group
		r.extra = func(net *simnet.Net, eps []*endpoint) {
			for i := range hp.Peers {
				i := i
				pg.goTask(fmt.Sprintf("raw%d", i), func() { h.rawPeer(i) })
			}
		}
		r.post = func(net *simnet.Net, eps []*endpoint) {
			pg.wait("hostile.join-peers")
			// the server must still serve a fresh healthy connection
			c, st := mpx.Connect(r.bg, simAddr, r.log, hp.Flow.Opt.options())
			if !st.OK() {
				simrt.Fail("C11-server-dead", "after the hostile peers a fresh connection failed: %s", stName(st))
			}
			prs := net.Pairs()
			prs[len(prs)-1].Tag = "raw" // the probe connection is closed right here, not at teardown
			ep := &endpoint{conn: c}
			if st := r.probeOnce(c.Channel); !st.OK() {
				simrt.Fail("C11-server-dead", "after the hostile peers an echo on a fresh connection failed: %s", stName(st))
			}
			ep.close()
		}
	})
	for i, ps := range h.peers {
		rep.count("probe:raw_peers", 1)
		rep.count("hs:"+hp.Peers[i].Handshake, 1)
		if ps.handlerCalls > 0 {
			rep.count("probe:raw_handler_invocations", int64(ps.handlerCalls))
		}
		if ps.closedByPeer {
			rep.count("probe:raw_conns_closed_by_server", 1)
		}
		rep.count("fault:byzantine-peer", 1)
	}
	return rep
}

func (hostileScn) Shrink(plan any) []any {
	hp := plan.(*HostilePlan)
	clone := func() *HostilePlan {
		b, _ := json.Marshal(hp)
		q := &HostilePlan{}
		json.Unmarshal(b, q)
		return q
	}
	var out []any
	for i := range hp.Peers {
		if len(hp.Peers) > 1 {
			q := clone()
			q.Peers = append(q.Peers[:i], q.Peers[i+1:]...)
			out = append(out, q)
		}
		for k := range hp.Peers[i].Steps {
			q := clone()
			q.Peers[i].Steps = append(q.Peers[i].Steps[:k], q.Peers[i].Steps[k+1:]...)
			out = append(out, q)
		}
	}
	for _, f := range shrinkFlow(hp.Flow) {
		q := clone()
		q.Flow = f.(*FlowPlan)
		out = append(out, q)
	}
	return out
}
