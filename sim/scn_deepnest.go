package simcheck

import (
	"bytes"
	"context"
	"encoding/binary"
	"encoding/json"
	"net"
	"runtime/debug"
	"sync"
	"testing"
	"time"

	"github.com/basecomplextech/baselibrary/async"
	"github.com/basecomplextech/baselibrary/status"
	"github.com/basecomplextech/baselibrary/verifsim/simnet"
	"github.com/basecomplextech/baselibrary/verifsim/simrt"
	"github.com/basecomplextech/spec"
	"github.com/basecomplextech/spec/mpx"
)

// deepnest (C11, "the process keeps running"): a scripted raw peer sends one frame whose message
// holds a value nested Depth levels deep. The library parses every frame completely before it looks
// at it; if that parser recurses without a bound, a deep enough frame ends the *process* with a
// stack overflow, which no recover() can contain. Such a run has no verdict to write: the driver
// leaves a "pending" replay file before the run and removes it afterwards, and bin/check turns a dead
// worker plus a pending file into the violation `C11-process-died` (and confirms it by replaying the
// file in a fresh process, which must die the same way).
//
// The Go runtime's stack limit is 1 GB, which a frame of some 30 MB reaches. To keep the check cheap the
// scenario lowers the limit of its own process to 32 MiB (debug.SetMaxStack): the defect, unbounded
// recursion on peer-controlled input, is the same, the frame that triggers it is about a megabyte.

type DeepNestPlan struct {
	Env
	Depth int    `json:"depth"`
	When  string `json:"when"`  // first: the frame follows the protocol line; open: after a valid handshake
	Shape string `json:"shape"` // list | message
}

type deepnestScn struct{}

func (deepnestScn) Name() string     { return "deepnest" }
func (deepnestScn) Property() string { return "C11" }
func (deepnestScn) Fatal() bool      { return true }

var deepnestStack sync.Once

func (deepnestScn) Generate(g *simrt.Rng, tier string) any {
	p := &DeepNestPlan{Env: genEnv(g, tier)}
	p.Sched = SchedPlan{Policy: simrt.PolicyRandom, PYield: 0, SiteMask: ^uint64(0)}
	p.Net = NetPlan{}
	p.Opt.Compression = false
	p.Opt.Window = 1 << 20
	p.Opt.WriteQueue = 16 << 20
	p.Opt.ReadBuf, p.Opt.WriteBuf = 32768, 32768
	p.Depth = simrt.Pick(g, 10, 1000, 20000, 150000, 400000)
	p.When = simrt.Pick(g, "first", "open")
	p.Shape = simrt.Pick(g, "list", "message")
	return p
}

func (deepnestScn) Decode(raw json.RawMessage) (any, error) {
	p := &DeepNestPlan{}
	err := json.Unmarshal(raw, p)
	return p, err
}

// deepFrame builds a well-formed message whose field 99 holds Depth nested lists (or messages).
func deepFrame(depth int, shape string) []byte {
	w := spec.NewMessageWriter()
	if shape == "message" {
		ms := make([]spec.MessageWriter, 0, depth)
		m := w.Field(99).Message()
		ms = append(ms, m)
		for i := 1; i < depth; i++ {
			m = m.Field(1).Message()
			ms = append(ms, m)
		}
		m.Field(1).Int32(7)
		for i := len(ms) - 1; i >= 0; i-- {
			if err := ms[i].End(); err != nil {
				panic(err)
			}
		}
	} else {
		ls := make([]spec.ListWriter, 0, depth)
		l := w.Field(99).List()
		ls = append(ls, l)
		for i := 1; i < depth; i++ {
			l = l.List()
			ls = append(ls, l)
		}
		l.Int32(7)
		for i := len(ls) - 1; i >= 0; i-- {
			if err := ls[i].End(); err != nil {
				panic(err)
			}
		}
	}
	b, err := w.Build()
	if err != nil {
		panic(err)
	}
	out := make([]byte, 4+len(b))
	binary.BigEndian.PutUint32(out, uint32(len(b)))
	copy(out[4:], b)
	return out
}

func (deepnestScn) Run(t *testing.T, seed uint64, plan any, o RunOpts) *Report {
	p := plan.(*DeepNestPlan)
	deepnestStack.Do(func() { debug.SetMaxStack(32 << 20) })
	frame := deepFrame(p.Depth, p.Shape) // built outside the bubble: plain computation
	cfg := p.Env.simConfig(seed)
	o.apply(&cfg)
	var nt *simnet.Net
	handlers := 0
	res := simrt.Run(t, cfg, func() {
		nt = p.Env.install()
		log := newRecLogger()
		bg := async.NewContext()
		opts := p.Opt.options()
		srv := mpx.NewServer(simAddr, mpx.HandleFunc(func(ctx mpx.Context, ch mpx.Channel) status.Status {
			hbAcquire()
			defer hbRelease()
			handlers++
			msg, st := ch.Receive(bg)
			if !st.OK() {
				return status.OK
			}
			return ch.SendAndClose(bg, msg)
		}), log, opts)
		srv.Start()
		waitFlag(srv.Listening())
		cli, st := mpx.Connect(bg, simAddr, log, opts)
		if !st.OK() {
			simrt.Fail("C11-connect", "healthy client: %s", stName(st))
		}
		echo := func(k int) {
			ch, st := cli.Channel(bg)
			if !st.OK() {
				simrt.Fail("C11-other-conn-affected", "healthy client, echo %d: Channel returned %s", k, stName(st))
			}
			defer ch.Free()
			msg := payload(p.Nonce, 1, 0, 0, k, 64)
			if st := ch.Send(bg, msg); !st.OK() {
				simrt.Fail("C11-other-conn-affected", "healthy client, echo %d: Send returned %s", k, stName(st))
			}
			got, st := ch.Receive(bg)
			if !st.OK() || !bytes.Equal(got, msg) {
				simrt.Fail("C11-other-conn-affected", "healthy client, echo %d: %s, %d bytes", k, stName(st), len(got))
			}
		}
		echo(0)
		before := handlers

		// the raw peer
		d := &net.Dialer{Timeout: time.Second}
		c, err := simnet.DialContext(d, context.Background(), "tcp", simAddr)
		if err != nil {
			simrt.Fail("C11-dial", "raw peer could not connect: %v", err)
		}
		c.(*simnet.Conn).Pair().Tag = "raw"
		closed := false
		hGo("raw-reader", func() {
			buf := make([]byte, 4096)
			for {
				if _, err := c.Read(buf); err != nil {
					closed = true
					return
				}
			}
		})
		script := []byte(mpx.ProtocolLine)
		if p.When == "open" {
			h := &hostileRun{}
			script = h.handshakeBytes(HostilePeer{Handshake: "valid"})
		}
		script = append(script, frame...)
		simrt.Logf("raw peer writes %d bytes: a frame with %d nested %ss (%s)", len(script), p.Depth, p.Shape, p.When)
		c.Write(script)
		hWaitCondUntil("deepnest.wait-close", func() bool { return closed }, time.Now().Add(5*time.Second))
		if !closed {
			simrt.Fail("C11-hostile-not-closed", "the server did not close the connection of a peer that sent a frame which is no mpx message (%d nested %ss), 5 s later", p.Depth, p.Shape)
		}
		if handlers != before {
			simrt.Fail("C11-served-unnegotiated", "a handler ran for the raw peer")
		}
		echo(1)
		c.Close()
		cli.Close()
		simrt.Recv(0, srv.Stop())
		for _, pr := range nt.Pairs() {
			if !pr.IsReset {
				pr.Reset("teardown")
			}
		}
		bg.Cancel()
		hWaitQuiescent("deepnest.teardown")
	})
	rep := newReport(res)
	if nt != nil {
		rep.addNet(nt)
	}
	rep.count("probe:deep_frames_sent", 1)
	rep.count("probe:deep_frame_levels", int64(p.Depth))
	nt2 := nt
	_ = nt2
	if rep.Inconclusive != "" || len(rep.Violations) > 0 {
		return rep
	}
	if res.Deadlock {
		rep.violate("C11-deadlock", "blocked: %v", res.Blocked)
		return rep
	}
	for _, pn := range res.Panics {
		if containsAny(pn, "UNRECOVERED") {
			rep.violate("C11-panic", "%s", trunc(pn, 600))
			break
		}
	}
	return rep
}

func (deepnestScn) Shrink(plan any) []any {
	p := plan.(*DeepNestPlan)
	var out []any
	if p.Depth > 10 {
		q := *p
		q.Depth = p.Depth / 2
		out = append(out, &q)
	}
	return out
}
