package simcheck

import (
	"encoding/json"
	"testing"
	"time"

	"github.com/basecomplextech/baselibrary/verifsim/simnet"
	"github.com/basecomplextech/baselibrary/verifsim/simrt"
)

// faultseq (C09): seeded fault *sequences* while raw mpx traffic is in flight:
// resets, half-closes, black-holed paths that end in a keep-alive reset, stalls,
// server crash and restart, refused and timed-out dials, repeated.

type FaultOp struct {
	AfterUs int    `json:"after_us"`
	Kind    string `json:"kind"` // rst | fin | blackhole | stall | crash | restart | refuse | timeout | cuths | uclose
	Dir     int    `json:"dir,omitempty"`
	N       int    `json:"n,omitempty"`
	DurUs   int    `json:"dur_us,omitempty"`
}

type FaultSeqPlan struct {
	Flow *FlowPlan `json:"flow"`
	Ops  []FaultOp `json:"ops"`
}

type faultseqScn struct{}

func (faultseqScn) Name() string     { return "faultseq" }
func (faultseqScn) Property() string { return "C09" }

// genStorm: many senders of one connection cycle through a write queue of one slot (each frame a
// sender gets in frees the next waiter) when the connection is reset: every one of them must come back.
func genStorm(g *simrt.Rng, tier string) *FaultSeqPlan {
	p := &FlowPlan{Env: genEnv(g, tier), Faulty: true}
	p.Opt.WriteQueue = simrt.Pick(g, 1, 16)
	p.Opt.Window = 1 << 20
	p.Opt.Compression = false
	p.Net.BufCap = simrt.Pick(g, 64, 1024, 0)
	p.Net.LatencyMaxUs = simrt.Pick(g, 0, 10, 200)
	p.Net.LatencyMinUs = 0
	if p.Sched.Policy == simrt.PolicyRandom && p.Sched.PYield < 0.05 {
		p.Sched.PYield = simrt.Pick(g, 0.05, 0.2, 0.5)
	}
	p.Clients = []ClientPlan{{Kind: "connect"}}
	for i := 3 + g.IntN(6); i > 0; i-- {
		c := ChanPlan{End: EndClientClose}
		for k := 6 + g.IntN(14); k > 0; k-- {
			c.C2S = append(c.C2S, Msg{Size: simrt.Pick(g, 16, 17, 40, 64, 900+g.IntN(130))})
		}
		p.Channels = append(p.Channels, c)
	}
	// the cut lands at a byte offset inside the traffic, i.e. while the senders are cycling
	total := 0
	for _, c := range p.Channels {
		for _, m := range c.C2S {
			total += m.Size + 30
		}
	}
	p.Net.Faults = []simnet.Fault{{Conn: 0, Dir: 0, AtByte: int64(60 + g.IntN(total)), Kind: simrt.Pick(g, simnet.FaultRST, simnet.FaultRST, simnet.FaultFIN)}}
	return &FaultSeqPlan{Flow: p}
}

func (faultseqScn) Generate(g *simrt.Rng, tier string) any {
	if g.Bool(0.15) || tier == "storm" {
		return genStorm(g, tier)
	}
	p := genFlowPlan(g, tier, []int{EndClientClose, EndClientFree, EndServerClose, EndHandlerOK})
	p.Faulty = true
	// clients that can come back: on-demand and auto-connect (a bare Connect cannot)
	for i := range p.Clients {
		p.Clients[i].Kind = simrt.Pick(g, "ondemand", "auto", "connect")
	}
	for i := range p.Channels {
		c := &p.Channels[i]
		if !c.enderIsClient() && !c.OpenClose {
			c.EndRecv = len(c.C2S)
		}
		c.StartUs = simrt.Pick(g, 0, 100, 5000, 50000, 400000, 2000000)
		for k := range c.C2S {
			c.C2S[k].Size = min(c.C2S[k].Size, 3000)
		}
		for k := range c.S2C {
			c.S2C[k].Size = min(c.S2C[k].Size, 3000)
		}
	}
	fp := &FaultSeqPlan{Flow: p}
	n := 1 + g.IntN(6)
	down := false
	for i := 0; i < n; i++ {
		op := FaultOp{AfterUs: simrt.Pick(g, 10, 500, 5000, 50000, 300000, 1500000), Dir: g.IntN(2)}
		switch {
		case down:
			op.Kind = "restart"
			down = false
		default:
			op.Kind = simrt.Pick(g, "rst", "fin", "blackhole", "stall", "crash", "refuse", "timeout", "rst", "blackhole", "cuths", "uclose")
			if op.Kind == "crash" {
				down = true
			}
		}
		op.N = 1 + g.IntN(4)
		op.DurUs = simrt.Pick(g, 1000, 50000, 2000000, 15000000)
		fp.Ops = append(fp.Ops, op)
	}
	return fp
}

func (faultseqScn) Decode(raw json.RawMessage) (any, error) {
	p := &FaultSeqPlan{}
	err := json.Unmarshal(raw, p)
	return p, err
}

func (faultseqScn) Run(t *testing.T, seed uint64, plan any, o RunOpts) *Report {
	fp := plan.(*FaultSeqPlan)
	var faultsDone bool
	var rr *flowRun
	inject := func(net *simnet.Net) {
		for _, op := range fp.Ops {
			hSleep(time.Duration(op.AfterUs) * time.Microsecond)
			// the most recent connection that is still alive
			var pr *simnet.Pair
			for _, q := range net.Pairs() {
				if !q.IsReset && !q.C.Closed() && !q.S.Closed() {
					pr = q
				}
			}
			simrt.Logf("fault op %s", op.Kind)
			switch op.Kind {
			case "rst":
				if pr != nil {
					pr.Reset("faultseq")
				}
			case "uclose":
				// the user of one end closes a live connection with Conn.Close while traffic is in flight
				for _, c := range rr.userConns[op.Dir] {
					if !c.Closed().IsSet() {
						st := c.Close()
						simrt.Logf("fault op: user closes a connection (%s end) -> %s", []string{"client", "server"}[op.Dir], stName(st))
						net.Stats.FaultsFired["user-close"]++
						break
					}
				}
			case "cuths":
				// the connection dies and the next N connections are cut inside their handshake
				net.CutHandshakes(simAddr, op.N)
				if pr != nil {
					pr.Reset("faultseq")
				}
			case "fin":
				if pr != nil {
					pr.Fin("faultseq")
				}
			case "blackhole":
				if pr != nil {
					pr.Blackhole(op.Dir, time.Duration(op.DurUs)*time.Microsecond)
				}
			case "stall":
				if pr != nil {
					pr.Stall(op.Dir, time.Duration(op.DurUs)*time.Microsecond)
				}
			case "crash":
				if rr.srvUp {
					rr.crashServer(net)
					net.Stats.FaultsFired["server-crash"]++
				}
			case "restart":
				if !rr.srvUp {
					rr.startServer()
					net.Stats.FaultsFired["server-restart"]++
				}
			case "refuse":
				net.RefuseDials(simAddr, op.N)
			case "timeout":
				net.TimeoutDials(simAddr, op.N)
			}
		}
		faultsDone = true
	}
	p := fp.Flow
	p.Faulty = true
	rep := runFlowX(t, seed, p, o, "C09", func(r *flowRun) {
		rr = r
		r.extra = func(net *simnet.Net, eps []*endpoint) {
			hGo("faults", func() { inject(net) })
		}
		r.beforePost = func(net *simnet.Net) {
			hWaitCond("faultseq.join-faults", func() bool { return faultsDone })
			net.RefuseDials(simAddr, 0)
			net.TimeoutDials(simAddr, 0)
			net.CutHandshakes(simAddr, 0)
			// the last fault may still be working: a stalled or black-holed path ends in a keep-alive
			// reset after at most 15 s, an in-flight dial takes at most the dial timeout
			hSleep(16*time.Second + time.Duration(p.Opt.DialTimeoutMs)*time.Millisecond)
			for _, q := range net.Pairs() {
				if q.Stalled() {
					q.Reset("stall-ends")
				}
			}
			hSleep(2 * time.Second)
		}
		r.post = r.recoveryProbe
	})
	rep.count("fault_ops", int64(len(fp.Ops)))
	if rep.Inconclusive != "" || len(rep.Violations) > 0 {
		return rep
	}
	for _, l := range rr.log.errors {
		if containsAny(l, "panic", "Panic") {
			rep.violate("C09-panic-logged", "the library logged a panic after a transport failure: %s", trunc(l, 300))
			return rep
		}
	}
	if len(rep.Panics) > 0 {
		rep.violate("C09-panic", "the library panicked after a transport failure: %s", trunc(rep.Panics[0], 900))
		return rep
	}
	if len(rr.leaked) > 0 {
		rep.violate("C09-leak", "tasks of the system are still alive long after the faults and after everything was closed: %v", rr.leaked)
	}
	return rep
}

func (faultseqScn) Shrink(plan any) []any {
	fp := plan.(*FaultSeqPlan)
	var out []any
	for i := range fp.Ops {
		q := &FaultSeqPlan{Flow: cloneFlow(fp.Flow)}
		q.Ops = append(append([]FaultOp{}, fp.Ops[:i]...), fp.Ops[i+1:]...)
		out = append(out, q)
	}
	for _, f := range shrinkFlow(fp.Flow) {
		out = append(out, &FaultSeqPlan{Flow: f.(*FlowPlan), Ops: fp.Ops})
	}
	return out
}
