package simcheck

import (
	"encoding/json"
	"testing"

	"github.com/basecomplextech/baselibrary/verifsim/simnet"
	"github.com/basecomplextech/baselibrary/verifsim/simrt"
)

// chanend (C06): channels are ended by every means, on either side, at
// arbitrary instants relative to the other side's traffic, while sibling
// channels on the same connection keep the full delivery oracle.
type chanendScn struct{}

func (chanendScn) Name() string     { return "chanend" }
func (chanendScn) Property() string { return "C06" }

func (chanendScn) Generate(g *simrt.Rng, tier string) any {
	ends := []int{EndClientClose, EndClientFree, EndServerClose, EndHandlerOK, EndHandlerErr, EndHandlerPanic,
		EndClientFree, EndHandlerOK, EndHandlerErr, EndHandlerPanic}
	p := &FlowPlan{Env: genEnv(g, tier)}
	// race windows matter here: more pre-emption, no run-to-block
	if p.Sched.Policy == simrt.PolicyRandom && p.Sched.PYield == 0 {
		p.Sched.PYield = simrt.Pick(g, 0.05, 0.2, 0.5)
	}
	// few connections, many channels each
	nCli := 1 + g.IntN(2)
	for i := 0; i < nCli; i++ {
		p.Clients = append(p.Clients, ClientPlan{Kind: simrt.Pick(g, "connect", "connect", "ondemand")})
	}
	p.Opt.MaxConns = 1
	p.Opt.ConnChannels = 0
	maxMsg, maxSize := 8, 3000
	if tier == "thorough" {
		maxMsg, maxSize = 16, 20000
	}
	nCh := 3 + g.IntN(8)
	for i := 0; i < nCh; i++ {
		c := genChan(g, &p.Env, nCli, maxMsg, maxSize, ends)
		// the ending side leaves early: the other side is still streaming
		if !c.OpenClose && g.Bool(0.7) {
			c.Victim = true
			c.CancelSend = g.Bool(0.5)
			if c.enderIsClient() {
				c.EndRecv = g.IntN(len(c.S2C)/2 + 1)
			} else {
				c.EndRecv = 1 + g.IntN((len(c.C2S)+1)/2)
			}
		}
		// both sides end the channel on their own: their close frames cross
		if !c.OpenClose && g.Bool(0.35) {
			c.CancelSend = true
			if c.enderIsClient() {
				c.YEnd = 1 + simrt.Pick(g, EndServerClose, EndHandlerOK, EndHandlerErr, EndHandlerPanic)
				c.YEndRecv = 1 + g.IntN(len(c.C2S))
			} else {
				c.YEnd = 1 + simrt.Pick(g, EndClientClose, EndClientFree)
				c.YEndRecv = g.IntN(len(c.S2C) + 1)
			}
			// often at the same point of the conversation, so that the two closes are in flight together
			if g.Bool(0.5) {
				c.EndRecv, c.YEndRecv = min(c.EndRecv, 1), min(c.YEndRecv, 1)
				if !c.enderIsClient() {
					c.EndRecv = 1
				} else {
					c.YEndRecv = 1
				}
			}
		}
		p.Channels = append(p.Channels, c)
	}
	return p
}

func (chanendScn) Decode(raw json.RawMessage) (any, error) {
	p := &FlowPlan{}
	err := json.Unmarshal(raw, p)
	return p, err
}

func (chanendScn) Run(t *testing.T, seed uint64, plan any, o RunOpts) *Report {
	p := plan.(*FlowPlan)
	rep := runFlow(t, seed, p, o, nil, "C06")
	return rep
}

func (chanendScn) Shrink(plan any) []any { return shrinkFlow(plan.(*FlowPlan)) }

var _ = simnet.FaultRST
