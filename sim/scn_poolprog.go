package simcheck

import (
	"bytes"
	"encoding/json"
	"fmt"
	"testing"

	"github.com/basecomplextech/baselibrary/alloc"
	"github.com/basecomplextech/baselibrary/bin"
	"github.com/basecomplextech/baselibrary/status"
	"github.com/basecomplextech/baselibrary/verifsim/simpool"
	"github.com/basecomplextech/baselibrary/verifsim/simrt"
	"github.com/basecomplextech/spec"
	"github.com/basecomplextech/spec/proto/pmpx"
	"github.com/basecomplextech/spec/proto/prpc"
)

// poolprog (C18): G tasks run seeded writer programs through the pooled
// writers, interleaved step by step under adversarial pool reuse; every
// program's result must equal the result of the same program run alone with
// fresh objects.

type PoolProg struct {
	Kind int `json:"kind"`
	N    int `json:"n"`
	Arg  int `json:"arg"`
}

type PoolProgPlan struct {
	Env
	Tasks [][]PoolProg `json:"tasks"`
}

type poolprogScn struct{}

func (poolprogScn) Name() string     { return "poolprog" }
func (poolprogScn) Property() string { return "C18" }

const numProgKinds = 14

func (poolprogScn) Generate(g *simrt.Rng, tier string) any {
	p := &PoolProgPlan{Env: genEnv(g, tier)}
	p.Pool.Policy = simrt.Pick(g, simpool.LIFO, simpool.LIFO, simpool.FIFO, simpool.Random)
	p.Pool.Poison = true
	nT := 2 + g.IntN(7)
	maxP := 6
	if tier == "thorough" {
		maxP = 16
	}
	for i := 0; i < nT; i++ {
		var progs []PoolProg
		for k := 1 + g.IntN(maxP); k > 0; k-- {
			progs = append(progs, PoolProg{Kind: g.IntN(numProgKinds), N: simrt.Pick(g, 0, 1, 2, 3, 10, 47, 48, 49, 100, 255, 256, 300), Arg: g.IntN(1 << 20)})
		}
		p.Tasks = append(p.Tasks, progs)
	}
	return p
}

func (poolprogScn) Decode(raw json.RawMessage) (any, error) {
	p := &PoolProgPlan{}
	err := json.Unmarshal(raw, p)
	return p, err
}

// runProg executes one program; yield is called between writer operations.
// The result is the produced bytes, or "error: ..." for programs that fail.
func runProg(nonce uint32, pr PoolProg, yield func()) (out []byte) {
	defer func() {
		if e := recover(); e != nil {
			out = []byte(fmt.Sprintf("panic: %v", e))
		}
	}()
	data := payload(nonce, pr.Kind, 9, 0, pr.Arg%1000, pr.N+1)
	res := func(b []byte, err error) []byte {
		if err != nil {
			return []byte("error: " + err.Error())
		}
		return bytes.Clone(b)
	}
	buf := alloc.NewBuffer()
	defer buf.Free()
	switch pr.Kind {
	case 0: // mpx open frame
		w := pmpx.NewMessageWriterBuffer(buf)
		yield()
		w.Code(pmpx.Code_ChannelOpen)
		w1 := w.ChannelOpen()
		yield()
		w1.Id(bin.Int128(int64(pr.Arg), int64(pr.N)))
		w1.Window(int32(pr.Arg))
		yield()
		w1.Data(data)
		if err := w1.End(); err != nil {
			return res(nil, err)
		}
		yield()
		m, err := w.Build()
		return res(m.Unwrap().Raw(), err)
	case 1: // mpx batch
		b := pmpx.NewBatchBuilder(buf)
		var err error
		for i := 0; i <= pr.N%5; i++ {
			yield()
			b, err = b.Open(bin.Int128(int64(i), int64(pr.Arg)), data, 1000)
			if err != nil {
				return res(nil, err)
			}
		}
		yield()
		m, err := b.Build()
		return res(m.Unwrap().Raw(), err)
	case 2: // rpc request with several calls
		w := prpc.NewRequestWriterBuffer(buf)
		calls := w.Calls()
		for i := 0; i <= pr.N%7; i++ {
			yield()
			c := calls.Add()
			c.Method(fmt.Sprintf("method-%d-%d", pr.Arg, i))
			in := c.Input()
			in.Field(1).Uint32(uint32(pr.Arg + i))
			yield()
			in.Field(uint16(2 + i)).Bytes(data)
			if err := in.End(); err != nil {
				return res(nil, err)
			}
			if err := c.End(); err != nil {
				return res(nil, err)
			}
		}
		yield()
		if err := calls.End(); err != nil {
			return res(nil, err)
		}
		m, err := w.Build()
		return res(m.Unwrap().Raw(), err)
	case 3: // rpc response
		w := prpc.NewMessageWriterBuffer(buf)
		w.Type(prpc.MessageType_Response)
		yield()
		w1 := w.Resp()
		w2 := w1.Status()
		w2.Code(fmt.Sprintf("code-%d", pr.Arg))
		yield()
		w2.Message(string(data))
		if err := w2.End(); err != nil {
			return res(nil, err)
		}
		yield()
		w1.Result().Any(mustValue(data))
		if err := w1.End(); err != nil {
			return res(nil, err)
		}
		m, err := w.Build()
		return res(m.Unwrap().Raw(), err)
	case 4: // wide message: field count around the preallocated table size
		w := spec.NewMessageWriterBuffer(buf)
		for i := 0; i < pr.N; i++ {
			if i%16 == 0 {
				yield()
			}
			w.Field(uint16(1 + i*3)).Int64(int64(pr.Arg) * int64(i+1))
		}
		yield()
		b, err := w.Build()
		return res(b, err)
	case 5: // list of strings inside a message
		w := spec.NewMessageWriterBuffer(buf)
		l := w.Field(7).List()
		for i := 0; i < pr.N; i++ {
			if i%16 == 0 {
				yield()
			}
			l.String(fmt.Sprintf("%d-%d", pr.Arg, i))
		}
		if err := l.End(); err != nil {
			return res(nil, err)
		}
		yield()
		w.Field(8).Bytes(data)
		b, err := w.Build()
		return res(b, err)
	case 6: // fails midway: the outer message is finished while a nested one is still open
		w := prpc.NewMessageWriterBuffer(buf)
		w.Type(prpc.MessageType_Response)
		w1 := w.Resp()
		yield()
		w2 := w1.Status()
		w2.Code("unfinished")
		yield()
		_, err := w.Build() // nested writers were never ended
		if err == nil {
			return []byte("no error from an unfinished nested write")
		}
		return []byte("error: " + err.Error())
	case 7: // value writer
		w := spec.NewValueWriterBuffer(buf)
		yield()
		if pr.N%2 == 0 {
			w.Bytes(data)
		} else {
			w.String(string(data))
		}
		yield()
		b, err := w.Build()
		return res(b, err)
	case 8: // a writer owned by the caller (not released automatically), reused for several messages through Reset
		w := spec.NewWriter()
		var all []byte
		for i := 0; i <= pr.N%4; i++ {
			w.Reset(buf)
			m := w.Message()
			m.Field(1).Int64(int64(pr.Arg) + int64(i))
			yield()
			m.Field(uint16(2 + i)).Bytes(data)
			yield()
			l := m.Field(40).List()
			for k := 0; k <= i; k++ {
				l.Int32(int32(pr.Arg ^ k))
			}
			if err := l.End(); err != nil {
				return res(nil, err)
			}
			yield()
			b, err := m.Build()
			if err != nil {
				return res(nil, err)
			}
			all = append(all, b...)
			all = append(all, '|')
			buf.Reset()
			yield()
		}
		w.Free()
		return all
	case 9: // writer with its own buffer whose state is released when the root ends
		w := spec.NewMessageWriter()
		w.Field(1).Uint32(uint32(pr.Arg))
		yield()
		w1 := w.Field(2).Message()
		w1.Field(1).Bytes(data)
		yield()
		if err := w1.End(); err != nil {
			return res(nil, err)
		}
		yield()
		b, err := w.Build()
		return res(b, err)
	case 10: // fails midway in other ways: a second root value / an element outside a list
		w := spec.NewValueWriterBuffer(buf)
		yield()
		if pr.N%2 == 0 {
			w.Int64(int64(pr.Arg))
			yield()
			w.Int64(int64(pr.Arg) + 1) // a second root value
		} else {
			m := w.Message()
			m.Field(1).Bytes(data)
			yield()
			w.String("root again") // the root is still open
		}
		yield()
		_, err := w.Build()
		if err == nil {
			return []byte("no error from a misused writer")
		}
		return []byte("error: " + err.Error())
	case 11: // a caller-owned writer fails midway and is then released by its owner (as a deferred Free would)
		w := spec.NewWriter()
		w.Reset(buf)
		yield()
		var err error
		if pr.N%2 == 0 {
			v := w.Value()
			v.Int64(int64(pr.Arg))
			yield()
			err = v.Int64(int64(pr.Arg) + 1) // a second root value
		} else {
			m := w.Message()
			m1 := m.Field(1).Message()
			m1.Field(1).Bytes(data)
			yield()
			_, err = m.Build() // the nested message is still open
		}
		yield()
		w.Free()
		if pr.N%3 == 0 {
			w.Free() // released twice by a careless owner: must stay harmless
		}
		if err == nil {
			return []byte("no error from a misused writer")
		}
		return []byte("error: " + err.Error())
	case 12, 13: // a message is begun and then abandoned: its owner releases the still open writer
		var w spec.MessageWriter
		if pr.Kind == 12 {
			w = spec.NewMessageWriter() // own buffer, state released automatically
		} else {
			w = spec.NewMessageWriterBuffer(buf) // pooled writer
		}
		w.Field(1).Int64(int64(pr.Arg))
		yield()
		m := w.Field(2).Message()
		m.Field(1).Bytes(data)
		yield()
		if pr.N%2 == 0 {
			if err := m.End(); err != nil {
				return res(nil, err)
			}
		}
		yield()
		w.Unwrap().Free()
		yield()
		// afterwards a complete message of its own
		w2 := spec.NewMessageWriterBuffer(buf)
		w2.Field(1).Uint32(uint32(pr.Arg))
		yield()
		w2.Field(2).Bytes(data)
		b, err := w2.Build()
		return res(b, err)
	}
	return []byte("unknown program")
}

func mustValue(data []byte) []byte {
	buf := alloc.NewBuffer()
	defer buf.Free()
	w := spec.NewValueWriterBuffer(buf)
	w.Bytes(data)
	b, err := w.Build()
	if err != nil {
		panic(err)
	}
	return bytes.Clone(b)
}

func (poolprogScn) Run(t *testing.T, seed uint64, plan any, o RunOpts) *Report {
	p := plan.(*PoolProgPlan)
	cfg := p.Env.simConfig(seed)
	o.apply(&cfg)
	var gets, reuses int64
	res := simrt.Run(t, cfg, func() {
		p.Env.install()
		// reference results: every program alone, with fresh objects
		simpool.Policy = simpool.Never
		expected := make([][][]byte, len(p.Tasks))
		for i, progs := range p.Tasks {
			for _, pr := range progs {
				exp := runProg(p.Nonce, pr, func() {})
				if bytes.HasPrefix(exp, []byte("panic: ")) {
					simrt.Fail("C18-panic", "task %d program (kind %d, n %d) run alone with fresh objects panics inside the library: %s", i, pr.Kind, pr.N, trunc(string(exp), 300))
				}
				expected[i] = append(expected[i], exp)
			}
		}
		simpool.Policy = p.Pool.Policy
		simpool.Poison = p.Pool.Poison
		var g group
		for i, progs := range p.Tasks {
			i, progs := i, progs
			g.goTask(fmt.Sprintf("prog%d", i), func() {
				for k, pr := range progs {
					got := runProg(p.Nonce, pr, func() { hYield("poolprog") })
					if !bytes.Equal(got, expected[i][k]) {
						simrt.Fail("C18-differs", "task %d program %d (kind %d, n %d): the result under concurrency and pool reuse differs from the result of the same program run alone: got %d bytes %q..., alone %d bytes %q...",
							i, k, pr.Kind, pr.N, len(got), trunc(string(got), 60), len(expected[i][k]), trunc(string(expected[i][k]), 60))
					}
				}
			})
		}
		g.wait("poolprog.join")
		gets, reuses = simpool.Stats.Gets, simpool.Stats.Reuses
	})
	rep := newReport(res)
	rep.count("probe:pool_gets", gets)
	rep.count("probe:pool_reuses", reuses)
	for _, progs := range p.Tasks {
		rep.count("programs", int64(len(progs)))
	}
	if rep.Inconclusive != "" || len(rep.Violations) > 0 {
		return rep
	}
	for _, pn := range res.Panics {
		rep.violate("C18-panic", "panic: %s", trunc(pn, 600))
		break
	}
	return rep
}

func (poolprogScn) Shrink(plan any) []any {
	p := plan.(*PoolProgPlan)
	clone := func() *PoolProgPlan {
		b, _ := json.Marshal(p)
		q := &PoolProgPlan{}
		json.Unmarshal(b, q)
		return q
	}
	var out []any
	for i := range p.Tasks {
		if len(p.Tasks) > 1 {
			q := clone()
			q.Tasks = append(q.Tasks[:i], q.Tasks[i+1:]...)
			out = append(out, q)
		}
		for k := range p.Tasks[i] {
			if len(p.Tasks[i]) > 1 {
				q := clone()
				q.Tasks[i] = append(q.Tasks[i][:k], q.Tasks[i][k+1:]...)
				out = append(out, q)
			}
		}
	}
	return out
}

var _ = status.OK
