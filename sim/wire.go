package simcheck

import (
	"bytes"
	"encoding/binary"
	"fmt"
	"io"
	"time"

	"github.com/basecomplextech/baselibrary/bin"
	"github.com/basecomplextech/baselibrary/verifsim/simrt"
	"github.com/basecomplextech/spec/proto/pmpx"
	"github.com/pierrec/lz4/v4"
)

// frameEv is one mpx frame seen on the wire (batches are flattened).
type frameEv struct {
	Step    int64
	At      time.Duration
	Conn    int
	Dir     int // 0 c2s, 1 s2c
	Code    pmpx.Code
	ID      bin.Bin128
	Delta   int32
	Window  int32
	Data    []byte
	InBatch bool
	EndOff  int64 // raw stream offset just after the (outer) frame
}

// wireDir parses one direction of one connection incrementally.
type wireDir struct {
	conn, dir  int
	buf        []byte
	off        int64 // raw bytes consumed so far
	lineDone   bool
	connFrame  bool // the connect request/response has been parsed
	compressed bool // the rest of this direction is an lz4 stream (parsed post-hoc only)
	raw        []byte
	err        string
	boundaries []int64 // raw offsets at which a complete element (line, frame) ended
}

// wireMon observes byte streams (a simnet tap) and turns them into frames.
type wireMon struct {
	dirs    map[[2]int]*wireDir
	onFrame func(f *frameEv)
	frames  []*frameEv
	keep    bool
	lz4     map[int]bool // conn -> lz4 negotiated
}

func newWireMon(keep bool) *wireMon {
	return &wireMon{dirs: map[[2]int]*wireDir{}, keep: keep, lz4: map[int]bool{}}
}

func (w *wireMon) dirOf(conn, dir int) *wireDir {
	k := [2]int{conn, dir}
	d := w.dirs[k]
	if d == nil {
		d = &wireDir{conn: conn, dir: dir}
		w.dirs[k] = d
	}
	return d
}

// feed is the tap callback.
func (w *wireMon) feed(conn, dir int, data []byte) {
	d := w.dirOf(conn, dir)
	d.raw = append(d.raw, data...)
	if d.err != "" || d.compressed {
		return
	}
	d.buf = append(d.buf, data...)
	for {
		if !d.lineDone {
			i := bytes.IndexByte(d.buf, '\n')
			if i < 0 {
				return
			}
			d.buf = d.buf[i+1:]
			d.off += int64(i + 1)
			d.lineDone = true
			d.boundaries = append(d.boundaries, d.off)
			continue
		}
		if d.connFrame && w.lz4[conn] {
			d.compressed = true
			d.buf = nil
			return
		}
		if len(d.buf) < 4 {
			return
		}
		n := int(binary.BigEndian.Uint32(d.buf))
		if n > 64<<20 {
			d.err = fmt.Sprintf("frame length %d", n)
			return
		}
		if len(d.buf) < 4+n {
			return
		}
		body := d.buf[4 : 4+n]
		d.off += int64(4 + n)
		d.boundaries = append(d.boundaries, d.off)
		w.parse(d, body)
		d.buf = d.buf[4+n:]
		if d.err != "" {
			return
		}
	}
}

func (w *wireMon) parse(d *wireDir, body []byte) {
	msg, _, err := pmpx.ParseMessage(body)
	if err != nil {
		d.err = "parse: " + err.Error()
		return
	}
	w.emit(d, msg, false)
}

func (w *wireMon) emit(d *wireDir, msg pmpx.Message, inBatch bool) {
	f := &frameEv{Step: simrt.Step(), At: simrt.Now(), Conn: d.conn, Dir: d.dir, Code: msg.Code(), InBatch: inBatch, EndOff: d.off}
	switch f.Code {
	case pmpx.Code_ConnectRequest:
		d.connFrame = true
	case pmpx.Code_ConnectResponse:
		d.connFrame = true
		r := msg.ConnectResponse()
		if r.Ok() && r.Compression() == pmpx.ConnectCompression_Lz4 {
			w.lz4[d.conn] = true
		}
	case pmpx.Code_Batch:
		list := msg.Batch().List()
		for i := 0; i < list.Len(); i++ {
			m1, err := list.GetErr(i)
			if err != nil {
				d.err = "batch: " + err.Error()
				return
			}
			w.emit(d, m1, true)
		}
		return
	case pmpx.Code_ChannelOpen:
		m := msg.ChannelOpen()
		f.ID, f.Window = m.Id(), m.Window()
		f.Data = append([]byte(nil), m.Data()...)
	case pmpx.Code_ChannelClose:
		m := msg.ChannelClose()
		f.ID = m.Id()
		f.Data = append([]byte(nil), m.Data()...)
	case pmpx.Code_ChannelData:
		m := msg.ChannelData()
		f.ID = m.Id()
		f.Data = append([]byte(nil), m.Data()...)
	case pmpx.Code_ChannelWindow:
		m := msg.ChannelWindow()
		f.ID, f.Delta = m.Id(), m.Delta()
	}
	if w.keep {
		w.frames = append(w.frames, f)
	}
	if w.onFrame != nil {
		w.onFrame(f)
	}
}

// decodeAll decodes the complete recorded stream of a direction post-hoc,
// decompressing the lz4 part when compression was negotiated. It returns the
// frames (flattened) and whether the stream ended on an element boundary.
func (w *wireMon) decodeAll(conn, dir int) (frames []*frameEv, clean bool, err error) {
	d := w.dirOf(conn, dir)
	raw := d.raw
	i := bytes.IndexByte(raw, '\n')
	if i < 0 {
		return nil, len(raw) == 0, nil
	}
	raw = raw[i+1:]
	out := newWireMon(true)
	od := out.dirOf(conn, dir)
	od.lineDone = true
	// first frame is never compressed
	if len(raw) < 4 {
		return nil, len(raw) == 0, nil
	}
	n := int(binary.BigEndian.Uint32(raw))
	if len(raw) < 4+n {
		return nil, false, nil
	}
	out.parse(od, raw[4:4+n])
	rest := raw[4+n:]
	if w.lz4[conn] {
		zr := lz4.NewReader(bytes.NewReader(rest))
		plain, rerr := io.ReadAll(zr)
		clean = rerr == nil
		rest = plain
	} else {
		clean = true
	}
	for len(rest) >= 4 {
		n := int(binary.BigEndian.Uint32(rest))
		if len(rest) < 4+n {
			clean = false
			break
		}
		out.parse(od, rest[4:4+n])
		if od.err != "" {
			return out.frames, false, fmt.Errorf("%s", od.err)
		}
		rest = rest[4+n:]
	}
	if len(rest) > 0 && len(rest) < 4 {
		clean = false
	}
	return out.frames, clean, nil
}
