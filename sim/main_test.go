package simcheck

import (
	"encoding/json"
	"flag"
	"fmt"
	"os"
	"path/filepath"
	"sort"
	"strings"
	"testing"
	"time"

	"github.com/basecomplextech/baselibrary/verifsim/simnet"
	"github.com/basecomplextech/baselibrary/verifsim/simpool"
	"github.com/basecomplextech/baselibrary/verifsim/simrt"
)

// Scenario is one simulated workload + oracle.
type Scenario interface {
	Name() string
	Property() string
	Generate(g *simrt.Rng, tier string) any
	Decode(raw json.RawMessage) (any, error)
	Run(t *testing.T, seed uint64, plan any, o RunOpts) *Report
	Shrink(plan any) []any
}

var scenarios = map[string]Scenario{}

func register(s Scenario) { scenarios[s.Name()] = s }

func init() {
	register(mpxflowScn{})
	register(chanendScn{})
	register(windowScn{})
	register(rpcScn{})
	register(rpcevilScn{})
	register(cutScn{})
	register(faultseqScn{})
	register(hostileScn{})
	register(clientScn{})
	register(lifecycleScn{})
	register(poolprogScn{})
	register(deepnestScn{})
}

// fatalScenario marks scenarios whose failure mode is the death of the process (a fatal runtime error
// that no recover can contain): the driver leaves a pending replay file around each run.
type fatalScenario interface{ Fatal() bool }

func pendingPath(dir, scenario string, seed uint64) string {
	return filepath.Join(dir, fmt.Sprintf("pending-%s-%d.json", scenario, seed))
}

// RunOpts are per-execution options that do not belong to the plan.
type RunOpts struct {
	KeepLog   bool
	CheckGoid bool
	MaxSteps  int64
}

func (o RunOpts) apply(c *simrt.Config) {
	c.KeepLog = o.KeepLog
	c.CheckGoid = o.CheckGoid
	if o.MaxSteps > 0 {
		c.MaxSteps = o.MaxSteps
	}
}

// Report is the outcome of one run.
type Report struct {
	Violations   []simrt.Violation `json:"violations,omitempty"`
	Inconclusive string            `json:"inconclusive,omitempty"` // step cap, infra trouble
	Infra        string            `json:"infra,omitempty"`
	Steps        int64             `json:"steps"`
	Switches     int64             `json:"switches"`
	SimUs        int64             `json:"sim_us"`
	Tasks        int               `json:"tasks"`
	LogHash      uint64            `json:"log_hash"`
	SchedHash    uint64            `json:"sched_hash"`
	Counts       map[string]int64  `json:"counts,omitempty"`
	Log          []string          `json:"log,omitempty"`
	Blocked      []string          `json:"blocked,omitempty"`
	Panics       []string          `json:"panics,omitempty"`
	ReplayPlan   any               `json:"-"` // when set, the plan that reproduces this report (enumerating scenarios)
	pairs        map[uint64]struct{}
	sites        map[int32]struct{}
	subRuns      int
}

func newReport(res *simrt.Result) *Report {
	r := &Report{Steps: res.Steps, Switches: res.Switches, SimUs: int64(res.SimTime / time.Microsecond), Tasks: res.Tasks,
		LogHash: res.LogHash, SchedHash: res.SchedHash, Counts: map[string]int64{}, Log: res.Log, Blocked: res.Blocked, Panics: res.Panics}
	r.Violations = append(r.Violations, res.Violations...)
	r.pairs = res.PreemptPair
	r.sites = res.SitesHit
	if res.InfraError != "" {
		r.Infra = res.InfraError
		r.Inconclusive = "infra"
	} else if len(res.Stuck) > 0 {
		r.Infra = fmt.Sprintf("tasks could not be shut down: %v", res.Stuck)
		r.Inconclusive = "infra"
	} else if res.Livelock {
		r.Violations = append(r.Violations, simrt.Violation{Rule: "livelock", Detail: fmt.Sprintf("the system spins without achieving anything: a retry or wake-up loop that neither blocks nor moves a byte (%s); live tasks: %v", res.LivelockAt, res.Blocked), Step: res.Steps})
	} else if res.StepCap {
		r.Inconclusive = "step-cap"
	} else if res.SimCap {
		r.Inconclusive = "sim-cap"
	}
	r.Counts["yields"] = res.Yields
	r.Counts["parks"] = res.Parks
	if res.SpawnLags > 0 {
		r.Counts["fault:spawn-lag"] = res.SpawnLags
	}
	r.Counts["pool_gets"] = simpoolStats.gets
	r.Counts["pool_reuses"] = simpoolStats.reuses
	return r
}

var simpoolStats struct{ gets, reuses int64 }

func init() {
	// capture pool statistics before they are reset at the end of a run
	simrt.OnReset(func() {})
}

// newReportMerge starts an accumulated report from a first one.
func newReportMerge(first *Report) *Report {
	r := &Report{Counts: map[string]int64{}, pairs: map[uint64]struct{}{}, sites: map[int32]struct{}{}}
	r.merge(first)
	r.LogHash, r.SchedHash = first.LogHash, first.SchedHash
	return r
}

func (r *Report) merge(o *Report) {
	r.Steps += o.Steps
	r.Switches += o.Switches
	r.SimUs += o.SimUs
	r.Tasks = max(r.Tasks, o.Tasks)
	for k, v := range o.Counts {
		r.Counts[k] += v
	}
	for k := range o.pairs {
		r.pairs[k] = struct{}{}
	}
	for k := range o.sites {
		r.sites[k] = struct{}{}
	}
	r.SchedHash = (r.SchedHash ^ o.SchedHash) * 1099511628211
	r.LogHash = (r.LogHash ^ o.LogHash) * 1099511628211
	r.subRuns++
}

func (r *Report) violate(rule, f string, a ...any) {
	r.Violations = append(r.Violations, simrt.Violation{Rule: rule, Detail: fmt.Sprintf(f, a...), Step: r.Steps})
}

func (r *Report) count(k string, n int64) { r.Counts[k] += n }

func (r *Report) addNet(n *simnet.Net) {
	st := n.Stats
	r.count("net_conns", int64(st.Conns))
	r.count("net_dials", int64(st.Dials))
	r.count("net_dial_refused", int64(st.DialRefused))
	r.count("net_dial_timeout", int64(st.DialTimeout))
	r.count("net_bytes", st.BytesC2S+st.BytesS2C)
	r.count("net_short_reads", st.ShortReads)
	r.count("net_segments", st.Segments)
	r.count("net_write_blocked", st.WriteBlocked)
	for k, v := range st.FaultsFired {
		r.count("fault:"+k, int64(v))
	}
}

// ---------------------------------------------------------------- driver

var (
	fScenario = flag.String("scenario", "", "scenario name")
	fSeed0    = flag.Uint64("seed0", 1, "first seed")
	fN        = flag.Int("n", 100, "number of runs")
	fTier     = flag.String("tier", "quick", "quick|thorough")
	fOut      = flag.String("out", "", "write the batch summary (JSON) here")
	fReplay   = flag.String("replay", "", "replay file to re-execute")
	fReplayD  = flag.String("replaydir", "/verif/replays", "where to write replay files")
	fWall     = flag.Float64("wall", 0, "stop after this many wall-clock seconds")
	fCheckG   = flag.Int("checkgoid", 16, "verify baton discipline on every k-th run (0: never)")
	fHashes   = flag.Bool("hashes", false, "include per-seed log hashes in the summary (determinism self-test)")
	fVerbose  = flag.Bool("v2", false, "print the event log of every run")
	fShrink   = flag.Int("shrink", 400, "maximum runs spent minimising a violation")
	fShrinkS  = flag.Int("shrinksec", 15, "maximum wall-clock seconds spent minimising a violation")
	fRaceLog  = flag.String("racelog", "", "prefix of the race detector's log (GORACE log_path); new reports are attributed to the run that produced them")
)

// Replay is the on-disk form of a violation.
type Replay struct {
	Property string            `json:"property"`
	Scenario string            `json:"scenario"`
	Tier     string            `json:"tier"`
	Seed     uint64            `json:"seed"`
	Rule     string            `json:"rule"`
	Detail   string            `json:"detail"`
	LogHash  uint64            `json:"log_hash"`
	Plan     json.RawMessage   `json:"plan"`
	Log      []string          `json:"log,omitempty"`
	Panics   []string          `json:"panics,omitempty"`
	Shrunk   int               `json:"shrink_steps"`
	OrigSeed uint64            `json:"orig_seed"`
	Other    []simrt.Violation `json:"other_violations,omitempty"`
	// the worker process that found it ran WorkerRuns runs starting at WorkerSeed0, this one last (a race
	// report can depend on what the detector saw earlier in the process: such a finding is confirmed by
	// re-running that prefix in a fresh process)
	WorkerSeed0 uint64 `json:"worker_seed0,omitempty"`
	WorkerRuns  int    `json:"worker_runs,omitempty"`
}

// Summary is what one worker process reports.
type Summary struct {
	Scenario     string            `json:"scenario"`
	Property     string            `json:"property"`
	Seed0        uint64            `json:"seed0"`
	Runs         int               `json:"runs"`
	SubRuns      int               `json:"sub_runs"`
	Steps        int64             `json:"steps"`
	Switches     int64             `json:"switches"`
	SimUs        int64             `json:"sim_us"`
	WallS        float64           `json:"wall_s"`
	Counts       map[string]int64  `json:"counts"`
	Inconclusive map[string]int    `json:"inconclusive"`
	InconclusiveSeeds []string     `json:"inconclusive_seeds,omitempty"`
	Infra        []string          `json:"infra,omitempty"`
	Violations   []string          `json:"violation_replays,omitempty"` // replay file paths
	Rules        map[string]int    `json:"violation_rules,omitempty"`
	SchedHashes  []uint64          `json:"sched_hashes,omitempty"`
	PreemptPairs []uint64          `json:"preempt_pairs,omitempty"`
	SitesHit     int               `json:"sites_hit"`
	Hashes       map[string]uint64 `json:"hashes,omitempty"`
	Samples      []json.RawMessage `json:"samples,omitempty"`
	NumSites     int               `json:"num_sites"`
}

func TestSim(t *testing.T) {
	if *fReplay != "" {
		doReplay(t)
		return
	}
	scn := scenarios[*fScenario]
	if scn == nil {
		var names []string
		for n := range scenarios {
			names = append(names, n)
		}
		sort.Strings(names)
		fmt.Fprintf(os.Stderr, "unknown scenario %q; have %v\n", *fScenario, names)
		os.Exit(2)
	}
	start := time.Now()
	sum := &Summary{Scenario: scn.Name(), Property: scn.Property(), Seed0: *fSeed0, Counts: map[string]int64{},
		Inconclusive: map[string]int{}, Rules: map[string]int{}, NumSites: simrt.NumSites()}
	if *fHashes {
		sum.Hashes = map[string]uint64{}
	}
	schedSet := map[uint64]struct{}{}
	pairSet := map[uint64]struct{}{}
	siteSet := map[int32]struct{}{}
	for i := 0; i < *fN; i++ {
		if *fWall > 0 && time.Since(start).Seconds() > *fWall {
			break
		}
		seed := *fSeed0 + uint64(i)
		plan := scn.Generate(simrt.NewRng(seed, simrt.StreamGen), *fTier)
		o := RunOpts{KeepLog: *fVerbose, CheckGoid: *fCheckG > 0 && i%*fCheckG == 0}
		pending := ""
		if f, ok := scn.(fatalScenario); ok && f.Fatal() && *fReplayD != "" {
			pb, _ := json.Marshal(plan)
			rb, _ := json.MarshalIndent(Replay{Property: scn.Property(), Scenario: scn.Name(), Tier: *fTier, Seed: seed, OrigSeed: seed,
				Rule: scn.Property() + "-process-died", Detail: "the process died while this run was executing (no verdict could be written)", Plan: pb}, "", " ")
			pending = pendingPath(*fReplayD, scn.Name(), seed)
			os.MkdirAll(*fReplayD, 0o755)
			os.WriteFile(pending, rb, 0o644)
		}
		rep := scn.Run(t, seed, plan, o)
		if pending != "" {
			os.Remove(pending)
		}
		if *fRaceLog != "" {
			if kept, ignored := newRaceReports(); len(kept) > 0 && len(rep.Violations) == 0 && rep.Inconclusive == "" {
				rep.violate("C18-data-race", "the race detector reports unsynchronised accesses inside the library on this simulated schedule (%d report(s), %d in simulator/harness code ignored):\n%s", len(kept), ignored, trunc(kept[0], 3500))
			} else {
				sum.Counts["race_reports_ignored_simulator_frames"] += int64(ignored)
			}
			sum.Counts["probe:runs_under_race_detector"]++
		}
		sum.Runs++
		sum.SubRuns += max(rep.subRuns, 1)
		sum.Steps += rep.Steps
		sum.Switches += rep.Switches
		sum.SimUs += rep.SimUs
		for k, v := range rep.Counts {
			sum.Counts[k] += v
		}
		schedSet[rep.SchedHash] = struct{}{}
		for k := range rep.pairs {
			pairSet[k] = struct{}{}
		}
		for k := range rep.sites {
			siteSet[k] = struct{}{}
		}
		if sum.Hashes != nil {
			sum.Hashes[fmt.Sprint(seed)] = rep.LogHash ^ rep.SchedHash*31
		}
		if *fVerbose {
			for _, l := range rep.Log {
				fmt.Println(l)
			}
			fmt.Printf("== seed %d: steps=%d violations=%v inconclusive=%q blocked=%v\n", seed, rep.Steps, rep.Violations, rep.Inconclusive, rep.Blocked)
		}
		if len(sum.Samples) < 3 && i%7 == 0 {
			b, _ := json.Marshal(plan)
			if len(b) < 6000 {
				sum.Samples = append(sum.Samples, b)
			}
		}
		if rep.Inconclusive != "" {
			sum.Inconclusive[rep.Inconclusive]++
			if len(sum.InconclusiveSeeds) < 20 {
				sum.InconclusiveSeeds = append(sum.InconclusiveSeeds, fmt.Sprintf("%d:%s", seed, rep.Inconclusive))
			}
			if rep.Infra != "" && len(sum.Infra) < 5 {
				sum.Infra = append(sum.Infra, fmt.Sprintf("seed %d: %s", seed, trunc(rep.Infra, 3000)))
			}
			continue
		}
		if len(rep.Violations) > 0 {
			rule := rep.Violations[0].Rule
			sum.Rules[rule]++
			// keep at most a few replays per rule per worker
			if sum.Rules[rule] <= 2 {
				if rep.ReplayPlan != nil {
					plan = rep.ReplayPlan
				}
				path := minimiseAndWrite(t, scn, seed, plan, rep)
				sum.Violations = append(sum.Violations, path)
			}
		}
	}
	sum.WallS = time.Since(start).Seconds()
	for k := range schedSet {
		sum.SchedHashes = append(sum.SchedHashes, k)
	}
	for k := range pairSet {
		sum.PreemptPairs = append(sum.PreemptPairs, k)
	}
	sum.SitesHit = len(siteSet)
	b, _ := json.Marshal(sum)
	if *fOut != "" {
		if err := os.WriteFile(*fOut, b, 0o644); err != nil {
			fmt.Fprintln(os.Stderr, err)
			os.Exit(2)
		}
	} else {
		fmt.Println(string(b))
	}
}

// minimiseAndWrite shrinks the failing plan while the same rule keeps firing,
// re-records the final run with its log and writes the replay file.
func minimiseAndWrite(t *testing.T, scn Scenario, seed uint64, plan any, rep *Report) string {
	rule := rep.Violations[0].Rule
	budget := *fShrink
	steps := 0
	curSeed := seed
	cur := plan
	curRep := rep
	improved := true
	deadline := time.Now().Add(time.Duration(*fShrinkS) * time.Second)
	for improved && budget > 0 && time.Now().Before(deadline) {
		improved = false
		for _, cand := range scn.Shrink(cur) {
			if budget <= 0 || !time.Now().Before(deadline) {
				break
			}
			// same seed first, then a few neighbours: a smaller plan shifts the schedule
			for _, s := range []uint64{curSeed, curSeed + 1000003, curSeed + 2000003, curSeed + 3000017} {
				budget--
				r2 := scn.Run(t, s, cand, RunOpts{})
				if r2.Inconclusive == "" && len(r2.Violations) > 0 && r2.Violations[0].Rule == rule {
					cur, curSeed, curRep = cand, s, r2
					improved = true
					steps++
					break
				}
			}
			if improved {
				break
			}
		}
	}
	// final recorded run
	final := scn.Run(t, curSeed, cur, RunOpts{KeepLog: true})
	if final.Inconclusive != "" || len(final.Violations) == 0 || final.Violations[0].Rule != rule {
		// must not happen: runs are deterministic
		fmt.Fprintf(os.Stderr, "NONDETERMINISM: seed %d rule %s did not reproduce in-process (got %v %q)\n", curSeed, rule, final.Violations, final.Inconclusive)
		final = curRep
	}
	pb, _ := json.Marshal(cur)
	rp := &Replay{Property: scn.Property(), Scenario: scn.Name(), Tier: *fTier, Seed: curSeed, Rule: rule,
		Detail: final.Violations[0].Detail, LogHash: final.LogHash, Plan: pb, Log: final.Log, Panics: final.Panics,
		Shrunk: steps, OrigSeed: seed, WorkerSeed0: *fSeed0, WorkerRuns: int(seed-*fSeed0) + 1}
	if len(final.Violations) > 1 {
		rp.Other = final.Violations[1:]
	}
	if len(rp.Log) > 3000 {
		rp.Log = rp.Log[len(rp.Log)-3000:]
	}
	os.MkdirAll(*fReplayD, 0o755)
	path := fmt.Sprintf("%s/%s-%s-%d.json", *fReplayD, scn.Property(), scn.Name(), curSeed)
	b, _ := json.MarshalIndent(rp, "", " ")
	os.WriteFile(path, b, 0o644)
	return path
}

func doReplay(t *testing.T) {
	b, err := os.ReadFile(*fReplay)
	if err != nil {
		fmt.Fprintln(os.Stderr, err)
		os.Exit(2)
	}
	var rp Replay
	if err := json.Unmarshal(b, &rp); err != nil {
		fmt.Fprintln(os.Stderr, err)
		os.Exit(2)
	}
	scn := scenarios[rp.Scenario]
	if scn == nil {
		fmt.Fprintln(os.Stderr, "unknown scenario", rp.Scenario)
		os.Exit(2)
	}
	plan, err := scn.Decode(rp.Plan)
	if err != nil {
		fmt.Fprintln(os.Stderr, err)
		os.Exit(2)
	}
	rep := scn.Run(t, rp.Seed, plan, RunOpts{KeepLog: true, CheckGoid: true})
	if *fRaceLog != "" {
		if kept, ignored := newRaceReports(); len(kept) > 0 && len(rep.Violations) == 0 && rep.Inconclusive == "" {
			rep.violate("C18-data-race", "the race detector reports unsynchronised accesses inside the library on this simulated schedule (%d report(s), %d in simulator/harness code ignored):\n%s", len(kept), ignored, trunc(kept[0], 3500))
		}
	}
	if *fVerbose {
		for _, l := range rep.Log {
			fmt.Println(l)
		}
		for _, p := range rep.Panics {
			fmt.Println("PANIC:", p)
		}
	}
	got := ""
	if len(rep.Violations) > 0 {
		got = rep.Violations[0].Rule
	}
	if rep.Inconclusive != "" {
		fmt.Printf("REPLAY inconclusive=%s infra=%s\n", rep.Inconclusive, trunc(rep.Infra, 2000))
		os.Exit(2)
	}
	if got == rp.Rule && rep.LogHash == rp.LogHash {
		fmt.Printf("REPLAY reproduced rule=%s detail=%s\n", got, rep.Violations[0].Detail)
		return
	}
	if got == rp.Rule {
		fmt.Printf("REPLAY reproduced-different-trace rule=%s (log hash %x, recorded %x) detail=%s\n", got, rep.LogHash, rp.LogHash, rep.Violations[0].Detail)
		return
	}
	fmt.Printf("REPLAY not-reproduced got=%q want=%q\n", got, rp.Rule)
	os.Exit(3)
}

var _ = simpool.LIFO

// ---------------------------------------------------------------- race detector log

var raceLogOff int64

// newRaceReports returns the race reports written since the last call whose two racing
// accesses are both in library code; reports with an access in the simulator or the harness
// (which are serialised by the hidden baton, not by synchronisation) are counted and dropped.
func newRaceReports() (kept []string, ignored int) {
	path := fmt.Sprintf("%s.%d", *fRaceLog, os.Getpid())
	b, err := os.ReadFile(path)
	if err != nil || int64(len(b)) <= raceLogOff {
		return nil, 0
	}
	text := string(b[raceLogOff:])
	raceLogOff = int64(len(b))
	for _, blk := range strings.Split(text, "==================") {
		if !strings.Contains(blk, "WARNING: DATA RACE") {
			continue
		}
		if raceBlockInLibrary(blk) {
			kept = append(kept, strings.TrimSpace(blk))
		} else {
			ignored++
		}
	}
	return kept, ignored
}

func raceBlockInLibrary(blk string) bool {
	// sections: "<Read|Write|Previous read|Previous write> at ... by ...:" followed by frames
	lines := strings.Split(blk, "\n")
	accesses := 0
	for i := 0; i < len(lines); i++ {
		l := strings.TrimSpace(lines[i])
		if !(strings.HasPrefix(l, "Read at") || strings.HasPrefix(l, "Write at") || strings.HasPrefix(l, "Previous read at") ||
			strings.HasPrefix(l, "Previous write at") || strings.HasPrefix(l, "Atomic") || strings.HasPrefix(l, "Previous atomic")) {
			continue
		}
		accesses++
		// The access belongs to the first frame (from the top) that is code of this project: library
		// (spec, baselibrary, lz4) or simulator/harness. Accesses made by the scheduler goroutine
		// (hooks and predicates it evaluates while no task runs) never count.
		first := ""
		sched := false
		for j := i + 1; j < len(lines); j++ {
			f := strings.TrimSpace(lines[j])
			if f == "" {
				break
			}
			if strings.Contains(f, "testingSynctestTest") || strings.Contains(f, "simrt.(*Sim).loop") || strings.Contains(f, "simrt.(*Sim).doShutdown") {
				sched = true
			}
			if first == "" && (strings.HasPrefix(f, "github.com/basecomplextech/") || strings.HasPrefix(f, "github.com/pierrec/") || strings.HasPrefix(f, "verif/simcheck")) {
				first = f
			}
		}
		if sched || first == "" || strings.Contains(first, "/verifsim/") || strings.HasPrefix(first, "verif/simcheck") {
			return false
		}
	}
	return accesses >= 2
}
