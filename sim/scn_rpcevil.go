package simcheck

import (
	"bytes"
	"encoding/binary"
	"encoding/json"
	"fmt"
	"net"
	"testing"
	"time"

	"github.com/basecomplextech/baselibrary/alloc"
	"github.com/basecomplextech/baselibrary/async"
	"github.com/basecomplextech/baselibrary/status"
	"github.com/basecomplextech/baselibrary/verifsim/simnet"
	"github.com/basecomplextech/baselibrary/verifsim/simrt"
	"github.com/basecomplextech/spec"
	"github.com/basecomplextech/spec/mpx"
	"github.com/basecomplextech/spec/proto/pmpx"
	"github.com/basecomplextech/spec/proto/prpc"
	"github.com/basecomplextech/spec/rpc"
)

// rpcevil (C04): the real rpc client against a scripted raw server that handshakes correctly
// and then answers calls with well-formed, malformed, truncated, mistyped or missing replies.
// An OK result may be observed only for a call the server answered with a well-formed OK
// response; everything else must surface as a non-OK status, without panic or hang.

type EvilCall struct {
	Reply   string `json:"reply"`
	Size    int    `json:"size"`
	Arg     int    `json:"arg"`
	StartUs int    `json:"start_us"`
	Kind    string `json:"kind"` // request | channel
}

type EvilPlan struct {
	Env
	Calls []EvilCall `json:"calls"`
}

var evilReplies = []string{"ok", "ok", "status", "close_empty", "close_garbage", "truncated", "wrong_type", "msg_then_close", "end_then_close",
	"bitflip", "rst", "fin", "two_responses", "ok_empty_result", "request_as_reply", "huge_status", "mutate", "mutate", "mutate_stream"}

type rpcevilScn struct{}

func (rpcevilScn) Name() string     { return "rpcevil" }
func (rpcevilScn) Property() string { return "C04" }

func (rpcevilScn) Generate(g *simrt.Rng, tier string) any {
	p := &EvilPlan{Env: genEnv(g, tier)}
	p.Opt.Compression = false // the scripted server speaks plain frames
	p.Opt.MaxConns = 1 + g.IntN(3)
	n := 1 + g.IntN(10)
	for i := 0; i < n; i++ {
		p.Calls = append(p.Calls, EvilCall{Reply: evilReplies[g.IntN(len(evilReplies))], Size: 1 + g.IntN(300), Arg: g.IntN(1 << 16),
			StartUs: simrt.Pick(g, 0, 0, 100, 5000), Kind: simrt.Pick(g, "request", "request", "channel")})
	}
	return p
}

func (rpcevilScn) Decode(raw json.RawMessage) (any, error) {
	p := &EvilPlan{}
	err := json.Unmarshal(raw, p)
	return p, err
}

type evilRun struct {
	p   *EvilPlan
	bg  async.CancelContext
	log *recLogger
}

func (r *evilRun) result(id int) []byte { return payload(r.p.Nonce, id, dirRes, 0, 0, r.p.Calls[id].Size) }

func (r *evilRun) response(id int, code, msg string, result []byte) []byte {
	buf := alloc.NewBuffer()
	w := prpc.NewMessageWriterBuffer(buf)
	w.Type(prpc.MessageType_Response)
	w1 := w.Resp()
	w2 := w1.Status()
	w2.Code(code)
	w2.Message(msg)
	if err := w2.End(); err != nil {
		panic(err)
	}
	if result != nil {
		vb := alloc.NewBuffer()
		vw := spec.NewValueWriterBuffer(vb)
		vw.Bytes(result)
		b, err := vw.Build()
		if err != nil {
			panic(err)
		}
		w1.Result().Any(b)
	}
	if err := w1.End(); err != nil {
		panic(err)
	}
	m, err := w.Build()
	if err != nil {
		panic(err)
	}
	return bytes.Clone(m.Unwrap().Raw())
}

// serveConn is the scripted server side of one connection.
func (r *evilRun) serveConn(c net.Conn) {
	sc := c.(*simnet.Conn)
	// the handshake is written by its own task: with tiny socket buffers both sides write first
	hGo("evil-handshake", func() {
		c.Write([]byte(mpx.ProtocolLine))
		resp, err := pmpx.BuildConnectResponse(pmpx.Version_Version10, pmpx.ConnectCompression_None)
		if err != nil {
			panic(err)
		}
		c.Write(frameOf(resp))
	})
	mon := newWireMon(false)
	mon.onFrame = func(f *frameEv) {
		if f.Code != pmpx.Code_ChannelOpen {
			return
		}
		msg, _, err := prpc.ParseMessage(f.Data)
		if err != nil || msg.Type() != prpc.MessageType_Request {
			return
		}
		calls := msg.Req().Calls()
		if calls.Len() != 1 {
			return
		}
		id := int(calls.Get(0).Input().Uint32(1))
		if id >= len(r.p.Calls) {
			return
		}
		r.reply(sc, id, f)
	}
	buf := make([]byte, 4096)
	for {
		n, err := c.Read(buf)
		if n > 0 {
			mon.feed(0, 0, buf[:n])
		}
		if err != nil {
			c.Close()
			return
		}
	}
}

func (r *evilRun) reply(sc *simnet.Conn, id int, open *frameEv) {
	ec := r.p.Calls[id]
	simrt.Logf("evil server: call%d -> %s", id, ec.Reply)
	closeWith := func(data []byte) {
		b := alloc.NewBuffer()
		m, err := pmpx.BuildChannelClose(pmpx.NewMessageWriterBuffer(b), open.ID, data)
		if err != nil {
			panic(err)
		}
		sc.Write(frameOf(m))
	}
	dataWith := func(data []byte) {
		b := alloc.NewBuffer()
		m, err := pmpx.BuildChannelData(pmpx.NewMessageWriterBuffer(b), open.ID, data)
		if err != nil {
			panic(err)
		}
		sc.Write(frameOf(m))
	}
	rpcMsg := func(typ prpc.MessageType, data []byte) []byte {
		b := alloc.NewBuffer()
		w := prpc.NewMessageWriterBuffer(b)
		w.Type(typ)
		if data != nil {
			w.Msg(data)
		}
		m, err := w.Build()
		if err != nil {
			panic(err)
		}
		return bytes.Clone(m.Unwrap().Raw())
	}
	switch ec.Reply {
	case "ok":
		closeWith(r.response(id, "ok", "", r.result(id)))
	case "ok_empty_result":
		closeWith(r.response(id, "ok", "", nil))
	case "status":
		closeWith(r.response(id, fmt.Sprintf("evil_code_%d", ec.Arg), "evil message", nil))
	case "huge_status":
		closeWith(r.response(id, string(bytes.Repeat([]byte("c"), 3000)), string(bytes.Repeat([]byte("m"), 20000)), nil))
	case "close_empty":
		closeWith(nil)
	case "close_garbage":
		closeWith(payload(r.p.Nonce, id, 7, 7, 7, 8+ec.Size))
	case "truncated":
		b := r.response(id, "ok", "", r.result(id))
		closeWith(b[:1+ec.Arg%(len(b)-1)])
	case "bitflip":
		b := r.response(id, "ok", "", r.result(id))
		pos := len(b) - 1 - ec.Arg%min(24, len(b))
		b[pos] ^= 1 << (uint(ec.Arg>>8) % 8)
		closeWith(b)
	case "mutate", "mutate_stream":
		// 1-4 byte-level mutations anywhere in a well-formed reply (overwrite, flip, truncate or extend)
		b := r.response(id, fmt.Sprintf("code_%d", ec.Arg%7), "some message", r.result(id))
		if ec.Arg%3 == 0 {
			b = r.response(id, "ok", "", r.result(id))
		}
		g := simrt.NewRng(uint64(ec.Arg)*7919+uint64(ec.Size), simrt.StreamGen)
		for k := 1 + g.IntN(4); k > 0; k-- {
			switch g.IntN(5) {
			case 0:
				b[g.IntN(len(b))] = byte(g.IntN(256))
			case 1:
				b[g.IntN(len(b))] ^= 1 << uint(g.IntN(8))
			case 2:
				b[len(b)-1-g.IntN(min(12, len(b)))] = byte(g.IntN(256)) // the trailing size/type bytes
			case 3:
				b = b[:1+g.IntN(len(b))]
			default:
				b = append(b, byte(g.IntN(256)))
			}
		}
		if ec.Reply == "mutate_stream" {
			dataWith(b)
			closeWith(nil)
		} else {
			closeWith(b)
		}
	case "wrong_type":
		closeWith(rpcMsg(prpc.MessageType_Message, []byte("not a response")))
	case "request_as_reply":
		closeWith(rpcMsg(prpc.MessageType_Request, nil))
	case "msg_then_close":
		dataWith(rpcMsg(prpc.MessageType_Message, []byte("stream message")))
		closeWith(nil)
	case "end_then_close":
		dataWith(rpcMsg(prpc.MessageType_End, nil))
		closeWith(nil)
	case "two_responses":
		dataWith(r.response(id, "ok", "", r.result(id)))
		closeWith(r.response(id, "evil_second", "", nil))
	case "rst":
		sc.Pair().Reset("evil-server")
	case "fin":
		sc.Close()
	}
}

func (rpcevilScn) Run(t *testing.T, seed uint64, plan any, o RunOpts) *Report {
	p := plan.(*EvilPlan)
	p.Opt.Compression = false
	r := &evilRun{p: p}
	cfg := p.Env.simConfig(seed)
	o.apply(&cfg)
	var net0 *simnet.Net
	res := simrt.Run(t, cfg, func() {
		net0 = p.Env.install()
		r.log = newRecLogger()
		r.bg = async.NewContext()
		ln, err := simnet.Listen("tcp", simAddr)
		if err != nil {
			panic(err)
		}
		hGo("evil-accept", func() {
			for {
				c, err := ln.Accept()
				if err != nil {
					return
				}
				hGo("evil-conn", func() { r.serveConn(c) })
			}
		})
		cl := rpc.NewClient(simAddr, rpc.ClientMode_OnDemand, r.log, p.Opt.options())
		var g group
		for id := range p.Calls {
			id := id
			g.goTask(fmt.Sprintf("call%d", id), func() { r.call(id, cl) })
		}
		g.wait("evil.join")
		cl.Close()
		ln.Close()
		for _, pr := range net0.Pairs() {
			if !pr.IsReset {
				pr.Reset("teardown")
			}
		}
		r.bg.Cancel()
		hWaitQuiescent("evil.teardown")
	})
	rep := newReport(res)
	if net0 != nil {
		rep.addNet(net0)
	}
	for _, c := range p.Calls {
		rep.count("reply:"+c.Reply, 1)
		rep.count("fault:byzantine-server-reply", 1)
	}
	if rep.Inconclusive != "" || len(rep.Violations) > 0 {
		return rep
	}
	if res.Deadlock {
		rep.violate("C04-deadlock", "a call against the scripted server never returned: blocked: %v", res.Blocked)
		return rep
	}
	for _, pn := range res.Panics {
		rep.violate("C04-panic", "the library panicked on a malformed reply: %s", trunc(pn, 700))
		break
	}
	return rep
}

func (r *evilRun) call(id int, cl rpc.Client) {
	ec := r.p.Calls[id]
	if ec.StartUs > 0 {
		hSleep(time.Duration(ec.StartUs) * time.Microsecond)
	}
	buf := alloc.NewBuffer()
	defer buf.Free()
	w := prpc.NewRequestWriterBuffer(buf)
	calls := w.Calls()
	c := calls.Add()
	c.Method(fmt.Sprintf("m%d", id))
	in := c.Input()
	in.Field(1).Uint32(uint32(id))
	in.End()
	c.End()
	calls.End()
	req, err := w.Build()
	if err != nil {
		panic(err)
	}
	var val spec.Value
	var st status.Status
	if ec.Kind == "request" {
		res, st1 := cl.Request(r.bg, req)
		st = st1
		if res != nil {
			val = bytes.Clone(res.Unwrap())
			res.Release()
		}
	} else {
		ch, st1 := cl.Channel(r.bg, req)
		if !st1.OK() {
			st = st1
		} else {
			for {
				if _, st2 := ch.Receive(r.bg); !st2.OK() {
					break
				}
			}
			v, st2 := ch.Response(r.bg)
			st, val = st2, bytes.Clone(v)
			ch.Free()
		}
	}
	simrt.Logf("call%d (%s) -> %s", id, ec.Reply, trunc(stName(st), 80))
	if !st.OK() {
		if ec.Reply == "status" && (string(st.Code) != fmt.Sprintf("evil_code_%d", ec.Arg) || st.Message != "evil message") {
			// a connection lost to a sibling call's reset may legitimately pre-empt the status
			if !r.anyConnKiller() {
				simrt.Fail("C04-status", "call %d: the server answered code=%q message=%q, the caller received code=%q message=%q", id, fmt.Sprintf("evil_code_%d", ec.Arg), "evil message", st.Code, st.Message)
			}
		}
		return
	}
	switch ec.Reply {
	case "ok":
		got, err := val.BytesErr()
		if err != nil || !bytes.Equal(got, r.result(id)) {
			simrt.Fail("C04-result", "call %d returned OK with a result that is not what the server sent for it (%d bytes, err=%v)", id, len(got), err)
		}
	case "ok_empty_result":
		if len(val) != 0 {
			simrt.Fail("C04-result", "call %d: OK without result was answered, the caller got %d bytes", id, len(val))
		}
	case "two_responses":
		// the first well-formed OK response wins or the call fails: OK is acceptable here
	case "bitflip", "mutate", "mutate_stream":
		// a damaged reply may still be a well-formed OK response: then the result is whatever the bytes say
	default:
		simrt.Fail("C04-false-ok", "call %d returned OK although the server's reply was %q (no well-formed OK response was ever sent for it)", id, ec.Reply)
	}
}

func (r *evilRun) anyConnKiller() bool {
	for _, c := range r.p.Calls {
		if c.Reply == "rst" || c.Reply == "fin" {
			return true
		}
	}
	return false
}

func (rpcevilScn) Shrink(plan any) []any {
	p := plan.(*EvilPlan)
	clone := func() *EvilPlan {
		b, _ := json.Marshal(p)
		q := &EvilPlan{}
		json.Unmarshal(b, q)
		return q
	}
	var out []any
	for i := range p.Calls {
		if len(p.Calls) > 1 {
			q := clone()
			q.Calls = append(q.Calls[:i], q.Calls[i+1:]...)
			out = append(out, q)
		}
	}
	out = append(out, shrinkEnv(p, func(q any) *Env { return &q.(*EvilPlan).Env }, func() any { return clone() })...)
	return out
}

var _ = binary.BigEndian
