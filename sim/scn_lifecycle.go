package simcheck

import (
	"encoding/json"
	"fmt"
	"testing"
	"time"

	"github.com/basecomplextech/baselibrary/alloc/bytequeue"
	"github.com/basecomplextech/baselibrary/async"
	"github.com/basecomplextech/baselibrary/status"
	"github.com/basecomplextech/baselibrary/verifsim/simnet"
	"github.com/basecomplextech/baselibrary/verifsim/simpool"
	"github.com/basecomplextech/baselibrary/verifsim/simrt"
	"github.com/basecomplextech/spec/mpx"
)

// lifecycle (C20): every opened channel reaches the handler exactly once, handler
// contexts are cancelled exactly when their channel ends, close listeners fire
// exactly once / never, with registration and unsubscription racing with shutdown.

type LcChan struct {
	Batch    bool   `json:"batch"`    // open+close in one batch (SendAndClose first)
	Handler  string `json:"handler"`  // return | echo | wait (waits for its context)
	ClientUs int    `json:"client_us"` // how long the client keeps the channel before it frees it
	StartUs  int    `json:"start_us"`
}

type LcListener struct {
	Side    string `json:"side"` // client | server
	RegUs   int    `json:"reg_us"`
	Unsub   bool   `json:"unsub"`
	UnsubUs int    `json:"unsub_us"`
	Via     string `json:"via"` // conn | context
	AtClose bool   `json:"at_close,omitempty"` // register when the shutdown is being initiated instead of at RegUs
	// SelfUnsub: the callback itself calls the unsubscribe function it got at registration (cleanup code
	// that runs the same path whether the connection closed or the listener was dropped)
	SelfUnsub bool `json:"self_unsub,omitempty"`
	// Panics: the callback panics (after it has been counted): the other listeners must still be invoked
	Panics bool `json:"panics,omitempty"`
}

type LcPlan struct {
	Env
	Channels  []LcChan     `json:"channels"`
	Listeners []LcListener `json:"listeners"`
	Shutdown  string       `json:"shutdown"` // client-close | server-close | rst | fin
	ShutUs    int          `json:"shut_us"`
	Noise     int          `json:"noise,omitempty"` // messages of a background channel that keeps the client's write queue full
	NoiseSize int          `json:"noise_size,omitempty"`
	Outlive   bool         `json:"outlive,omitempty"` // the connection stays up until every channel's end has demonstrably reached the server
}

const noiseChan = 0x7FFF

// markerChan: after its Free returned, a channel's client opens a fresh channel on the same
// connection and sends one marker. Frames leave a connection in the order they were queued and
// the peer's reader handles them one by one, so when the marker's handler runs the server has
// already handled the close frame of the freed channel: its handler's context must be cancelled
// by then, however long the frames took to get through.
const markerChan = 0x7FFE

type lifecycleScn struct{}

func (lifecycleScn) Name() string     { return "lifecycle" }
func (lifecycleScn) Property() string { return "C20" }

func (lifecycleScn) Generate(g *simrt.Rng, tier string) any {
	p := &LcPlan{Env: genEnv(g, tier)}
	if p.Sched.Policy == simrt.PolicyRandom && p.Sched.PYield == 0 {
		p.Sched.PYield = simrt.Pick(g, 0.05, 0.2, 0.5)
	}
	p.Opt.Window = simrt.Pick(g, 64, 1000, 65535)
	p.Net.BufCap = 0
	us := func() int { return simrt.Pick(g, 0, 0, 1, 10, 100, 1000, 5000) }
	n := g.IntN(7)
	for i := 0; i < n; i++ {
		p.Channels = append(p.Channels, LcChan{Batch: g.Bool(0.4), Handler: simrt.Pick(g, "return", "echo", "wait"), ClientUs: us(), StartUs: us()})
	}
	k := 1 + g.IntN(10)
	for i := 0; i < k; i++ {
		p.Listeners = append(p.Listeners, LcListener{Side: simrt.Pick(g, "client", "client", "server"), RegUs: us(), Unsub: g.Bool(0.4), UnsubUs: us(), Via: simrt.Pick(g, "conn", "context"), AtClose: g.Bool(0.4), SelfUnsub: g.Bool(0.2), Panics: g.Bool(0.08)})
	}
	p.Shutdown = simrt.Pick(g, "client-close", "client-close", "server-close", "rst", "fin", "halfclose-stalled")
	if p.Shutdown == "halfclose-stalled" {
		// back-pressure: the peer has stopped reading, so the server's send loop sits in a socket write
		p.Net.BufCap = simrt.Pick(g, 16, 64, 1024)
		p.Opt.WriteQueue = simrt.Pick(g, 16, 64, 4096)
		for i := range p.Channels {
			if g.Bool(0.7) {
				p.Channels[i].Handler = "stream"
			}
		}
		if len(p.Channels) == 0 {
			p.Channels = append(p.Channels, LcChan{Handler: "stream"})
		}
	}
	p.ShutUs = us()
	if p.Shutdown != "halfclose-stalled" && g.Bool(0.35) {
		// the connection outlives its channels: every channel end must reach the handler on its own
		p.ShutUs = 5_000_000
		p.Outlive = true
		if g.Bool(0.6) {
			// ... also under back-pressure: a background channel keeps the client's tiny write queue full
			p.Noise = 10 + g.IntN(50)
			// the write queue hands out room block by block (1 KiB and up): a small frame still fits the
			// tail block's remainder however "full" the queue is, unless the noise frames use their block up
			// (noise frames near the block size), or a stream of small frames fills the tail block to the brim
			p.NoiseSize = 880 + g.IntN(150)
			if g.Bool(0.5) {
				p.NoiseSize = 16 + g.IntN(48)
				p.Noise = 100 + g.IntN(300)
			}
			p.Net.BufCap = simrt.Pick(g, 16, 64)
			p.Opt.WriteQueue = simrt.Pick(g, 1, 16, 64)
			p.Opt.Window = 65535
		}
	}
	return p
}

func (lifecycleScn) Decode(raw json.RawMessage) (any, error) {
	p := &LcPlan{}
	err := json.Unmarshal(raw, p)
	return p, err
}

type lcListenerState struct {
	registered bool
	regOK      bool
	regDone    int64 // step at which registration returned
	unsubDone  int64 // step at which unsubscribe returned (0: not)
	unsubOpen  bool  // the connection's closed flag was still unset when unsubscribe had returned
	invoked    int
	invokedAt  int64
	flagAtCall bool
	tried      bool
}

type lcChanState struct {
	opened     bool // the opening Send returned OK
	endEvent   bool // the client has begun to end the channel (or the connection shutdown has begun)
	handlers   int
	ctxEarly   bool
	freedAt    time.Duration // when the client's Free returned (0: not yet)
	doneAt     time.Duration // when the handler returned
	started    bool
	ctx        mpx.Context   // the handler's context
	markerSent bool
	markerAt   time.Duration // when the server handled the marker sent after Free (0: never)
	liveAtMark bool          // the handler's context was not cancelled when the marker arrived
}

type lcRun struct {
	p          *LcPlan
	bg         async.CancelContext
	log        *recLogger
	net        *simnet.Net
	ls         []*lcListenerState
	cs         []*lcChanState
	closeBegan int64 // step at which the shutdown was initiated (0: not yet)
	closeBeganAt time.Duration
	srvConnCtx mpx.ConnContext
	aboutToClose bool
	srvConn    mpx.Conn
	handlerInv int
	handlerObj int64
	active     int
	stranded   int
}

func (lifecycleScn) Run(t *testing.T, seed uint64, plan any, o RunOpts) *Report {
	p := plan.(*LcPlan)
	r := &lcRun{p: p}
	for range p.Listeners {
		r.ls = append(r.ls, &lcListenerState{})
	}
	for range p.Channels {
		r.cs = append(r.cs, &lcChanState{})
	}
	cfg := p.Env.simConfig(seed)
	o.apply(&cfg)
	cfg.OnIdle = func() { r.stranded = bytequeue.VerifStranded() }
	res := simrt.Run(t, cfg, r.main)
	rep := newReport(res)
	if r.net != nil {
		rep.addNet(r.net)
	}
	rep.count("probe:listeners", int64(len(p.Listeners)))
	rep.count("shutdown:"+p.Shutdown, 1)
	if rep.Inconclusive != "" || len(rep.Violations) > 0 {
		return rep
	}
	if res.Deadlock {
		if r.stranded > 0 {
			rep.violate("F1-bytequeue-lost-wakeup", "deadlock with %d stranded byte queue(s); blocked: %v", r.stranded, res.Blocked)
			return rep
		}
		rep.violate("C20-deadlock", "after the connection closed something still waits (a handler whose context was never cancelled?): blocked: %v", res.Blocked)
		return rep
	}
	// listeners
	for i, l := range r.ls {
		pl := p.Listeners[i]
		if !l.tried {
			continue
		}
		if l.invoked > 1 {
			rep.violate("C20-listener-twice", "listener %d (%s) was invoked %d times", i, pl.Side, l.invoked)
		}
		if l.invoked > 0 && !l.flagAtCall {
			rep.violate("C20-flag-not-set", "listener %d (%s) ran while the connection's closed flag was not yet observable", i, pl.Side)
		}
		if !l.regOK {
			rep.count("probe:registrations_refused", 1)
			if l.invoked > 0 {
				rep.violate("C20-refused-but-invoked", "listener %d (%s): registration reported that the connection was already closed, yet the listener was invoked", i, pl.Side)
			}
			continue
		}
		// "before the close": before the harness initiated it, or (what a user can see) the closed flag was
		// still unset when the unsubscribe call had returned; listeners run only after the flag is set
		unsubBefore := l.unsubDone != 0 && (r.closeBegan == 0 || l.unsubDone < r.closeBegan || l.unsubOpen)
		unsubAfter := l.unsubDone != 0 && !unsubBefore
		switch {
		case unsubBefore:
			rep.count("probe:unsubscribed_before_close", 1)
			if l.invoked > 0 {
				rep.violate("C20-unsubscribed-but-invoked", "listener %d (%s) was unsubscribed (the call returned at step %d; the close was initiated at step %d; closed flag still unset when it returned: %v) and was still invoked", i, pl.Side, l.unsubDone, r.closeBegan, l.unsubOpen)
			}
		case unsubAfter:
			rep.count("probe:unsubscribe_overlaps_close", 1) // not judged
		default:
			rep.count("probe:listeners_expected_to_fire", 1)
			if l.invoked != 1 {
				rep.violate("C20-listener-not-invoked", "listener %d (%s, via %s): registration succeeded, it was never unsubscribed, the connection closed, and it was invoked %d times", i, pl.Side, pl.Via, l.invoked)
			}
		}
	}
	// handlers
	for i, c := range r.cs {
		if c.handlers > 1 {
			rep.violate("C20-handler-twice", "channel %d was handed to the handler %d times", i, c.handlers)
		}
		if c.ctxEarly {
			rep.violate("C20-context-early", "channel %d: the handler's context was cancelled before anything had ended the channel or the connection", i)
		}
	}
	for i, c := range r.cs {
		// the client ended the channel well before the connection went away: the handler's context
		// must have been cancelled by that alone (a handler that waits for it returns promptly)
		if c.opened && c.markerAt > 0 {
			if c.liveAtMark {
				rep.violate("C20-context-not-cancelled", "channel %d: the client's Free returned at %v; a marker sent on the same connection after that was handled by the server at %v, so the server had handled everything the client queued before it, yet the context of the channel's handler (%s) was not cancelled: the end of the channel did not reach the handler",
					i, c.freedAt, c.markerAt, p.Channels[i].Handler)
			} else if c.doneAt == 0 || c.doneAt > c.markerAt {
				rep.violate("C20-context-not-cancelled", "channel %d: the client's Free returned at %v; a marker sent on the same connection after that was handled by the server at %v, but the handler (%s) was only released at %v (connection shutdown began at %v): its context was not cancelled when the channel ended",
					i, c.freedAt, c.markerAt, p.Channels[i].Handler, c.doneAt, r.closeBeganAt)
			}
			rep.count("probe:channel_ends_checked_before_shutdown", 1)
		}
	}
	if int64(r.handlerInv) != r.handlerObj {
		rep.violate("C20-handler-not-invoked", "the server accepted %d opened channels (handler objects acquired) but invoked the handler %d times", r.handlerObj, r.handlerInv)
	}
	rep.count("probe:handler_invocations", int64(r.handlerInv))
	for _, pn := range res.Panics {
		rep.violate("C20-panic", "the library panicked: %s", trunc(pn, 600))
		break
	}
	return rep
}

func (r *lcRun) markEnd() {
	if r.closeBegan == 0 {
		r.closeBegan = simrt.Step()
		if r.closeBegan == 0 {
			r.closeBegan = 1
		}
		r.closeBeganAt = simrt.Now()
	}
	for _, c := range r.cs {
		c.endEvent = true
	}
}

func (r *lcRun) handler(ctx mpx.Context, ch mpx.Channel) status.Status {
	hbAcquire()
	defer hbRelease()
	r.active++
	defer func() { r.active-- }()
	r.handlerInv++
	if r.srvConnCtx == nil {
		cc, sc := ctx.Conn(), ch.Conn()
		r.srvConn, r.srvConnCtx = sc, cc
		hbRelease()
	}
	first, st := ch.Receive(r.bg)
	if !st.OK() {
		return status.OK
	}
	h, ok := parseHeader(first)
	if ok && h.nonce == r.p.Nonce && h.ch == noiseChan {
		for {
			if _, st := ch.Receive(r.bg); !st.OK() {
				return status.OK
			}
		}
	}
	if ok && h.nonce == r.p.Nonce && h.ch == markerChan && h.seq < len(r.cs) {
		c := r.cs[h.seq]
		if r.closeBegan == 0 && c.markerAt == 0 {
			c.markerAt = max(simrt.Now(), 1)
			// (a handler that has returned no longer owns its context object: do not look at it)
			c.liveAtMark = c.started && c.doneAt == 0 && c.ctx != nil && !c.ctx.Done()
			simrt.Logf("marker of channel %d handled (handler started=%v, context live=%v)", h.seq, c.started, c.liveAtMark)
		}
		return status.OK
	}
	if !ok || h.nonce != r.p.Nonce || h.ch >= len(r.cs) {
		simrt.Fail("C03-corrupt", "handler got a foreign opening payload")
	}
	c := r.cs[h.ch]
	c.ctx = ctx
	pc := r.p.Channels[h.ch]
	c.handlers++
	c.started = true
	defer func() { c.doneAt = max(simrt.Now(), 1) }()
	if ctx.Done() && !c.endEvent {
		c.ctxEarly = true
	}
	switch pc.Handler {
	case "return":
		return status.OK
	case "echo":
		ch.Send(ctx, first)
		for {
			if _, st := ch.Receive(ctx); !st.OK() {
				break
			}
		}
	case "stream":
		// streams until something stops it
		for k := 0; ; k++ {
			if st := ch.Send(ctx, payload(r.p.Nonce, h.ch, 1, 0, k, 200)); !st.OK() {
				break
			}
		}
		if !c.endEvent {
			c.ctxEarly = true
		}
	case "wait":
		// leaves only when its context is cancelled: if that never happens the run deadlocks
		simrt.Select(0, ctx.Wait())
		if !c.endEvent {
			c.ctxEarly = true
		}
	}
	return status.OK
}

func (r *lcRun) listenerTask(i int, cli mpx.Conn) {
	pl := r.p.Listeners[i]
	l := r.ls[i]
	if pl.AtClose {
		// registers in the very instant the shutdown is initiated: the scheduler interleaves the two
		hWaitCond("lc.at-close", func() bool { return r.aboutToClose })
		for k := pl.RegUs % 4; k > 0; k-- {
			hYield("lc.at-close")
		}
	} else {
		hSleep(time.Duration(pl.RegUs) * time.Microsecond)
	}
	var flag async.Flag
	var reg func(fn func()) (func(), bool)
	if pl.Side == "client" {
		flag = cli.Closed()
		reg = cli.OnClosed
		if pl.Via == "context" {
			reg = cli.Context().OnDisconnected
			flag = cli.Context().Disconnected()
		}
	} else {
		// server side: needs a handler to have seen its connection
		hWaitCondUntil("lc.wait-server-conn", func() bool { return r.srvConnCtx != nil }, time.Now().Add(50*time.Millisecond))
		if r.srvConnCtx == nil {
			return
		}
		flag = r.srvConnCtx.Disconnected()
		reg = r.srvConnCtx.OnDisconnected
		if pl.Via == "conn" {
			reg = r.srvConn.OnClosed
			flag = r.srvConn.Closed()
		}
	}
	l.tried = true
	var unsub func()
	var ok bool
	unsub, ok = reg(func() {
		l.invoked++
		l.invokedAt = simrt.Step()
		l.flagAtCall = flag.IsSet()
		simrt.Logf("listener %d invoked (flag=%v)", i, l.flagAtCall)
		if pl.SelfUnsub && unsub != nil {
			unsub()
			simrt.Logf("listener %d unsubscribed itself from its callback", i)
		}
		if pl.Panics {
			simrt.Logf("listener %d panics in its callback", i)
			panic(simrt.PanicSentinel{Tag: fmt.Sprintf("listener%d", i)})
		}
	})
	l.registered, l.regOK, l.regDone = true, ok, max(simrt.Step(), 1)
	simrt.Logf("listener %d registered ok=%v", i, ok)
	if ok && pl.Unsub {
		hSleep(time.Duration(pl.UnsubUs) * time.Microsecond)
		unsub()
		l.unsubOpen = !flag.IsSet()
		l.unsubDone = max(simrt.Step(), 1)
		simrt.Logf("listener %d unsubscribed", i)
	}
}

func (r *lcRun) main() {
	p := r.p
	r.net = p.Env.install()
	r.log = newRecLogger()
	r.bg = async.NewContext()
	opts := p.Opt.options()
	srv := mpx.NewServer(simAddr, mpx.HandleFunc(r.handler), r.log, opts)
	srv.Start()
	waitFlag(srv.Listening())
	cli, st := mpx.Connect(r.bg, simAddr, r.log, opts)
	if !st.OK() {
		simrt.Fail("C20-connect", "connect: %s", stName(st))
	}
	var g group
	for i := range p.Channels {
		i := i
		g.goTask(fmt.Sprintf("ch%d", i), func() {
			pc := p.Channels[i]
			c := r.cs[i]
			hSleep(time.Duration(pc.StartUs) * time.Microsecond)
			ch, st := cli.Channel(r.bg)
			if !st.OK() {
				return
			}
			msg := payload(p.Nonce, i, 0, 0, 0, 24)
			if pc.Batch {
				c.endEvent = true
				st = ch.SendAndClose(r.bg, msg)
			} else {
				st = ch.Send(r.bg, msg)
			}
			c.opened = st.OK()
			hSleep(time.Duration(pc.ClientUs) * time.Microsecond)
			c.endEvent = true
			ch.Free()
			c.freedAt = max(simrt.Now(), 1)
			if p.Outlive && c.opened {
				if mch, st := cli.Channel(r.bg); st.OK() {
					mch.SendAndClose(r.bg, payload(p.Nonce, markerChan, 0, 0, i, 24))
					mch.Free()
				}
			}
			c.markerSent = true
		})
	}
	for i := range p.Listeners {
		i := i
		g.goTask(fmt.Sprintf("lis%d", i), func() { r.listenerTask(i, cli) })
	}
	if p.Noise > 0 {
		noiseSize := p.NoiseSize
		if noiseSize == 0 {
			noiseSize = 2000
		}
		g.goTask("noise", func() {
			ch, st := cli.Channel(r.bg)
			if !st.OK() {
				return
			}
			defer ch.Free()
			for k := 0; k < p.Noise; k++ {
				if st := ch.Send(r.bg, payload(p.Nonce, noiseChan, 0, 0, k, noiseSize)); !st.OK() {
					return
				}
			}
		})
	}
	g.goTask("shutdown", func() {
		hSleep(time.Duration(p.ShutUs) * time.Microsecond)
		if p.Outlive {
			// the connection outlives its channels: wait until every marker got through (simulated time is free)
			hWaitCondUntil("lc.wait-markers", func() bool {
				for _, c := range r.cs {
					if !c.markerSent || (c.opened && c.markerAt == 0) {
						return false
					}
				}
				return true
			}, time.Now().Add(15*time.Minute))
			if n := bytequeue.VerifStranded(); n > 0 {
				simrt.Fail("F1-bytequeue-lost-wakeup", "%d byte queue(s) hold unread data in a later block while their reader is parked without a wake-up token: the connection's traffic stalled", n)
			}
		}
		simrt.Logf("shutdown begins: %s", p.Shutdown)
		r.aboutToClose = true
		switch p.Shutdown {
		case "client-close":
			r.markEnd()
			cli.Close()
		case "server-close":
			hWaitCondUntil("lc.wait-server-conn", func() bool { return r.srvConn != nil }, time.Now().Add(50*time.Millisecond))
			r.markEnd()
			if r.srvConn != nil {
				r.srvConn.Close()
			} else {
				cli.Close()
			}
		case "rst":
			r.markEnd()
			if prs := r.net.Pairs(); len(prs) > 0 {
				prs[0].Reset("harness")
			}
		case "fin":
			r.markEnd()
			if prs := r.net.Pairs(); len(prs) > 0 {
				prs[0].Fin("harness")
			}
		case "halfclose-stalled":
			// the client stops reading (server->client delivery stalls, the server's writes back up),
			// a little later its sending direction ends: the server reads EOF with its send loop blocked
			if prs := r.net.Pairs(); len(prs) > 0 {
				prs[0].Stall(1, time.Hour)
				hSleep(20 * time.Millisecond)
				r.markEnd()
				prs[0].HalfClose(0)
				// the server must close the connection on its own; the client side is closed afterwards
				hSleep(5 * time.Second)
				hWaitQuiescent("lc.after-eof")
				if r.srvConn != nil && !r.srvConn.Closed().IsSet() {
					simrt.Fail("C20-not-closed-after-eof", "the server read the end of the connection 5 s ago and has still not closed it: handler contexts are not cancelled and close listeners have not fired (%d handler(s) still running)", r.active)
				}
				cli.Close()
			}
		}
	})
	g.wait("lc.join")
	// the connection is closed by now (or closing): everything must wind down
	hWaitCond("lc.handlers", func() bool { return r.active == 0 })
	waitFlagFor(cli.Closed(), 20*time.Second)
	hWaitQuiescent("lc.settle")
	hSleep(time.Second)
	hWaitQuiescent("lc.settle2")
	r.handlerObj = simpool.GetsByType["*mpx.channelHandler"]
	cli.Close()
	simrt.Recv(0, srv.Stop())
	hWaitQuiescent("lc.teardown")
	r.bg.Cancel()
	hWaitQuiescent("lc.teardown2")
}

func (lifecycleScn) Shrink(plan any) []any {
	p := plan.(*LcPlan)
	clone := func() *LcPlan {
		b, _ := json.Marshal(p)
		q := &LcPlan{}
		json.Unmarshal(b, q)
		return q
	}
	var out []any
	for i := range p.Channels {
		q := clone()
		q.Channels = append(q.Channels[:i], q.Channels[i+1:]...)
		out = append(out, q)
	}
	for i := range p.Listeners {
		if len(p.Listeners) > 1 {
			q := clone()
			q.Listeners = append(q.Listeners[:i], q.Listeners[i+1:]...)
			out = append(out, q)
		}
	}
	out = append(out, shrinkEnv(p, func(q any) *Env { return &q.(*LcPlan).Env }, func() any { return clone() })...)
	return out
}
