package simcheck

import (
	"bytes"
	"fmt"
	"time"

	"github.com/basecomplextech/baselibrary/async"
	"github.com/basecomplextech/baselibrary/status"
	"github.com/basecomplextech/baselibrary/verifsim/simnet"
	"github.com/basecomplextech/baselibrary/verifsim/simrt"
	"github.com/basecomplextech/spec/mpx"
)

// Msg is one planned message.
type Msg struct {
	Size   int `json:"s"`
	Sender int `json:"snd,omitempty"`
}

// How a channel is ended, and by whom ("X" is the ending side, "Y" the other).
const (
	EndClientClose  = iota // client: SendAndClose(payload|nil), drain, Free
	EndClientFree          // client: Free
	EndServerClose         // handler: SendAndClose(payload|nil), return OK
	EndHandlerOK           // handler: return OK (the library frees the channel)
	EndHandlerErr          // handler: return an error status
	EndHandlerPanic        // handler: panic(sentinel)
	numEnds
)

var endNames = []string{"client-close", "client-free", "server-close", "handler-ok", "handler-err", "handler-panic"}

// ChanPlan is the script of one channel.
type ChanPlan struct {
	Client       int    `json:"client"`
	C2S          []Msg  `json:"c2s"` // messages the client sends, in order per sender; the first opens the channel
	S2C          []Msg  `json:"s2c"`
	End          int    `json:"end"`
	EndRecv      int    `json:"end_recv"`      // X ends after having received this many of Y's messages
	ClosePayload int    `json:"close_payload"` // size of the payload of the closing SendAndClose (0: none)
	OpenClose    bool   `json:"open_close"`    // client: the only send is SendAndClose (open+close batch); C2S is empty
	RecvDelayUs  [2]int `json:"recv_delay_us"` // lazy receivers: [client side, server side]
	SrvChanCtx   bool   `json:"srv_chan_ctx"`  // the handler uses its channel context for Send/Receive
	StartUs      int    `json:"start_us,omitempty"`
	Victim       bool   `json:"victim,omitempty"`
	// double end: the other side ("Y") also ends the channel on its own, after YEndRecv messages,
	// so that both ends race. YEnd is 1+kind of Y's ending action (0: Y only reacts).
	YEnd     int `json:"y_end,omitempty"`
	YEndRecv int `json:"y_end_recv,omitempty"`
	// CancelSend: an ending side does not wait for its own senders; it cancels their context as soon
	// as its receiver has what it waits for, joins them, and ends the channel with its data unsent.
	CancelSend bool `json:"cancel_send,omitempty"`
	// RecvCtx: a receiver ([client side, server side]) passes a context of its own to every Receive:
	// 1 = one it cancels after RecvCtxUs, 2 = a timeout context of RecvCtxUs. A Receive that returns
	// Cancelled / Timeout for that reason is simply repeated (with a longer deadline): it must not
	// have consumed anything.
	RecvCtx   [2]int `json:"recv_ctx,omitempty"`
	RecvCtxUs [2]int `json:"recv_ctx_us,omitempty"`
	// SendCtx: likewise for the senders of a side ([client side, server side]): every Send and
	// SendAndClose, the opening one included, gets a deadline; a call that returns Cancelled / Timeout
	// for that reason has sent nothing (and ended nothing) and is repeated with the same message.
	SendCtx   [2]int `json:"send_ctx,omitempty"`
	SendCtxUs [2]int `json:"send_ctx_us,omitempty"`
	// RecvPoll: the receiver of a side uses ReceiveAsync + ReceiveWait (armed before the poll) instead of Receive
	// CloseRace: client side, two senders: the second sender keeps sending while the first one's
	// SendAndClose ends the channel
	CloseRace bool `json:"close_race,omitempty"`
	RecvPoll [2]bool `json:"recv_poll,omitempty"`
	// Unopened: before its real channel the client obtains this many channels from the same endpoint and
	// frees them without sending anything (a caller that changed its mind, a request that failed to build)
	Unopened int `json:"unopened,omitempty"`
}

// sideEnd returns the ending action of one side (-1: none) and how many messages it waits for.
func (c *ChanPlan) sideEnd(client bool) (kind, limit int) {
	if c.enderIsClient() == client {
		return c.End, c.EndRecv
	}
	if c.YEnd > 0 {
		return c.YEnd - 1, c.YEndRecv
	}
	return -1, -1
}

func (c *ChanPlan) enderIsClient() bool { return c.End == EndClientClose || c.End == EndClientFree }

// effective message list of a direction, including the closing payload.
func (c *ChanPlan) eff(dir int) []Msg {
	var m []Msg
	if dir == 0 {
		m = append(m, c.C2S...)
	} else {
		m = append(m, c.S2C...)
	}
	if c.ClosePayload > 0 {
		if (dir == 0 && c.End == EndClientClose) || (dir == 1 && c.End == EndServerClose) {
			m = append(m, Msg{Size: c.ClosePayload})
		}
	}
	return m
}

// ClientPlan describes one client endpoint.
type ClientPlan struct {
	Kind string `json:"kind"` // "connect" | "ondemand" | "auto"
}

// FlowPlan is a complete mpx traffic scenario.
type FlowPlan struct {
	Env
	Clients  []ClientPlan `json:"clients"`
	Channels []ChanPlan   `json:"channels"`
	Faulty   bool         `json:"faulty"` // transport faults are planned: non-OK statuses are legitimate everywhere
}

// ---------------------------------------------------------------- history / oracle state

type dirState struct {
	msgs      []Msg
	bySender  [2][]int // msgs indices per sender
	nextSeq   [2]int   // receiver: next expected per-sender sequence
	recvCount int
	cursor    int // single sender: index after the last matched message
	sendOK    []bool
	sendTried []bool
	sendDone  []bool
	got       []bool
	sendSt    []string
	ended     bool   // receiver saw a non-OK status
	endSt     string // that status
	recvSteps []int64
}

type chanState struct {
	plan      *ChanPlan
	idx       int
	d         [2]*dirState
	opened    bool   // client got its channel
	openSt    string // status of opening
	handlers  int    // handler invocations attributed to this channel
	cliDone   bool
	srvDone   bool
	endAction string
}

type flowRun struct {
	plan   *FlowPlan
	chans  []*chanState
	log    *recLogger
	bg     async.CancelContext
	active int // running handlers
	hgroup group
	// unknown handler invocations (no matching channel)
	strayHandlers    int
	samples          []string
	post             func(net *simnet.Net, eps []*endpoint) // after the channels are done, before teardown
	extra            func(net *simnet.Net, eps []*endpoint) // after the endpoints exist, before traffic
	beforePost       func(net *simnet.Net)                  // after the channels are done: end of the fault phase
	tap              func(conn, dir int, data []byte)
	srv              mpx.Server
	srvUp            bool
	hostile          bool // scripted raw peers share the server: errors on their connections are expected
	foreign          func(h header, first []byte, ctx mpx.Context, ch mpx.Channel) status.Status
	probes           int
	leaked           []string
	errorsAtTeardown int
	panicsAtTeardown int
	tornDown         bool
	stranded         int
	recvCtxExpired   int // Receive calls that ended by the receiver's own deadline and were repeated
	sendCtxExpired   int // likewise Send calls
	unopened         int // channels obtained and freed without ever being opened
	userConns        [2][]mpx.Conn // connections the harness has seen through its channels: [client ends, server ends]
}

func newFlowRun(p *FlowPlan) *flowRun {
	r := &flowRun{plan: p}
	for i := range p.Channels {
		cp := &p.Channels[i]
		cs := &chanState{plan: cp, idx: i}
		for dir := 0; dir < 2; dir++ {
			ds := &dirState{msgs: cp.eff(dir)}
			for k, m := range ds.msgs {
				ds.bySender[m.Sender&1] = append(ds.bySender[m.Sender&1], k)
			}
			ds.sendOK = make([]bool, len(ds.msgs))
			ds.sendTried = make([]bool, len(ds.msgs))
		ds.sendDone = make([]bool, len(ds.msgs))
		ds.got = make([]bool, len(ds.msgs))
			ds.sendSt = make([]string, len(ds.msgs))
			cs.d[dir] = ds
		}
		r.chans = append(r.chans, cs)
	}
	return r
}

func (r *flowRun) content(cs *chanState, dir, k int) []byte {
	ds := cs.d[dir]
	m := ds.msgs[k]
	// per-sender sequence number of message k
	seq := 0
	for _, j := range ds.bySender[m.Sender&1] {
		if j == k {
			break
		}
		seq++
	}
	return payload(r.plan.Nonce, cs.idx, dir, m.Sender&1, seq, m.Size)
}

// checkRecv is the online delivery oracle (C03 prefix rule): called with every
// message a Receive returned on (channel, direction).
func (r *flowRun) checkRecv(cs *chanState, dir int, data []byte) {
	ds := cs.d[dir]
	ds.recvSteps = append(ds.recvSteps, simrt.Step())
	twoSenders := len(ds.bySender[1]) > 0
	var k int
	if !twoSenders {
		// the next expected message is the next one whose Send has not definitively failed;
		// a message whose Send returned a non-OK status may or may not have gone out
		k = ds.cursor
		for k < len(ds.msgs) && ((ds.sendDone[k] && !ds.sendOK[k]) || !ds.sendTried[k]) && !bytes.Equal(r.content(cs, dir, k), data) {
			k++
		}
		ds.cursor = k + 1
		if k >= len(ds.msgs) {
			simrt.Fail("C03-extra-message", "channel %d dir %d: received message #%d (%d bytes) but only %d were ever sent: %s",
				cs.idx, dir, k, len(data), len(ds.msgs), r.classify(cs, dir, data))
		}
	} else {
		h, ok := parseHeader(data)
		if !ok || h.nonce != r.plan.Nonce || h.ch != cs.idx || h.dir != dir || h.sender > 1 {
			simrt.Fail("C03-corrupt", "channel %d dir %d: message #%d (%d bytes) has a foreign or damaged header: %s",
				cs.idx, dir, ds.recvCount, len(data), r.classify(cs, dir, data))
		}
		for q := ds.nextSeq[h.sender]; q < h.seq && q < len(ds.bySender[h.sender]); q++ {
			kk := ds.bySender[h.sender][q]
			if (ds.sendDone[kk] && !ds.sendOK[kk]) || !ds.sendTried[kk] {
				ds.nextSeq[h.sender] = q + 1 // a Send that failed: its message may be missing
			} else {
				break
			}
		}
		if h.seq != ds.nextSeq[h.sender] {
			simrt.Fail("C03-order", "channel %d dir %d sender %d: got sequence %d, expected %d (duplicate, loss or reordering)",
				cs.idx, dir, h.sender, h.seq, ds.nextSeq[h.sender])
		}
		if h.seq >= len(ds.bySender[h.sender]) {
			simrt.Fail("C03-extra-message", "channel %d dir %d sender %d: sequence %d beyond the %d sent", cs.idx, dir, h.sender, h.seq, len(ds.bySender[h.sender]))
		}
		k = ds.bySender[h.sender][h.seq]
		ds.nextSeq[h.sender]++
	}
	want := r.content(cs, dir, k)
	if !bytes.Equal(want, data) {
		simrt.Fail("C03-content", "channel %d dir %d: message #%d differs from what was sent (got %d bytes, want %d): %s",
			cs.idx, dir, ds.recvCount, len(data), len(want), r.classify(cs, dir, data))
	}
	if !ds.sendTried[k] {
		simrt.Fail("C03-phantom", "channel %d dir %d: message #%d was received before it was ever passed to Send", cs.idx, dir, k)
	}
	ds.got[k] = true
	ds.recvCount++
}

// classify explains a wrong message: is it some other message of this run?
func (r *flowRun) classify(cs *chanState, dir int, data []byte) string {
	for _, c2 := range r.chans {
		for d2 := 0; d2 < 2; d2++ {
			for k := range c2.d[d2].msgs {
				w := r.content(c2, d2, k)
				if bytes.Equal(w, data) {
					if c2 == cs && d2 == dir {
						return fmt.Sprintf("it equals message #%d of the same channel/direction (duplicate or reordering)", k)
					}
					return fmt.Sprintf("it equals message #%d of channel %d dir %d (leakage between channels)", k, c2.idx, d2)
				}
				if len(data) > 0 && len(data) < len(w) && bytes.Equal(w[:len(data)], data) {
					return fmt.Sprintf("it is a %d-byte prefix of message #%d of channel %d dir %d (truncation)", len(data), k, c2.idx, d2)
				}
			}
		}
	}
	n := len(data)
	if n > 24 {
		n = 24
	}
	return fmt.Sprintf("it matches no message of this run; first bytes %x", data[:n])
}

// ---------------------------------------------------------------- execution

const probeChan = 0xFFFF

type opener func(ctx async.Context) (mpx.Channel, status.Status)

// runChannelClient is the client side of one channel.
func (r *flowRun) runChannelClient(cs *chanState, open opener) {
	cp := cs.plan
	if cp.StartUs > 0 {
		hSleep(time.Duration(cp.StartUs) * time.Microsecond)
	}
	for k := 0; k < cp.Unopened; k++ {
		if uch, st := open(r.bg); st.OK() {
			hYield("flow.unopened")
			uch.Free()
			r.unopened++
		}
	}
	ch, st := open(r.bg)
	cs.openSt = stName(st)
	if !st.OK() {
		simrt.Logf("ch%d open failed: %s", cs.idx, stName(st))
		if !r.plan.Faulty {
			simrt.Fail("C03-open-failed", "channel %d could not be opened on a healthy connection: %s", cs.idx, stName(st))
		}
		cs.cliDone = true
		return
	}
	cs.opened = true
	isX := cp.enderIsClient()
	chCtx, chConn := ch.Context(), ch.Conn()
	r.noteConn(0, chConn)

	if cp.OpenClose {
		// first and only operation: SendAndClose
		r.sendOne(cs, 0, 0, func(b []byte) status.Status {
			return r.sendDeadline(cs, 0, r.bg, func(ctx async.Context) status.Status { return ch.SendAndClose(ctx, b) })
		}, "SendAndClose")
		r.recvLoop(cs, 1, ch, r.bg, -1, cp.RecvDelayUs[0], false)
		ch.Free()
		cs.cliDone = true
		return
	}

	var g, gr, gRace group
	nData := len(cp.C2S)
	myEnd, limit := cp.sideEnd(true)
	// CloseRace: the client's second sender is not joined before the closing SendAndClose: the two calls
	// race on the same channel (the library serialises them; a Send that loses returns "closed", one that
	// returns OK has been queued before the close frame and must arrive)
	race := cp.CloseRace && myEnd == EndClientClose && len(cs.d[0].bySender[1]) > 0 && !cp.CancelSend
	sctx := async.Context(r.bg)
	var scancel async.CancelContext
	if cp.CancelSend && myEnd >= 0 {
		scancel = async.NewContext()
		sctx = scancel
	}
	for s := 0; s < 2; s++ {
		if len(cs.d[0].bySender[s]) == 0 {
			continue
		}
		s := s
		grp := &g
		if s == 1 && race {
			grp = &gRace
		}
		grp.goTask(fmt.Sprintf("ch%d-csend%d", cs.idx, s), func() {
			if s == 1 && race {
				hWaitCond("flow.wait-open", func() bool { return cs.d[0].sendDone[0] })
			}
			if s == 1 && scancel != nil {
				// the opening message (sender 0) is never abandoned half-way: a cancelled open would
				// leave a channel the peer has never heard of
				hWaitCond("flow.wait-open", func() bool { return cs.d[0].sendDone[0] })
			}
			for _, k := range cs.d[0].bySender[s] {
				if k >= nData {
					break // closing payload is sent by the end action
				}
				c := sctx
				if k == 0 {
					c = r.bg // the opening message is never abandoned: the handler must start
				}
				if !r.sendOne(cs, 0, k, func(b []byte) status.Status {
					return r.sendDeadline(cs, 0, c, func(ctx async.Context) status.Status { return ch.Send(ctx, b) })
				}, "Send") {
					return
				}
			}
		})
	}
	gr.goTask(fmt.Sprintf("ch%d-crecv", cs.idx), func() {
		r.recvLoop(cs, 1, ch, r.bg, limit, cp.RecvDelayUs[0], false)
	})
	gr.wait("flow.client.join-recv")
	if scancel != nil {
		scancel.Cancel()
	}
	g.wait("flow.client.join")
	if scancel != nil {
		scancel.Free()
	}

	switch myEnd {
	case EndClientClose:
		cs.endAction = "client SendAndClose"
		if cp.ClosePayload > 0 && isX {
			r.sendOne(cs, 0, nData, func(b []byte) status.Status {
				return r.sendDeadline(cs, 0, r.bg, func(ctx async.Context) status.Status { return ch.SendAndClose(ctx, b) })
			}, "SendAndClose")
		} else {
			st := r.sendDeadline(cs, 0, r.bg, func(ctx async.Context) status.Status { return ch.SendAndClose(ctx, nil) })
			simrt.Logf("ch%d client SendAndClose(nil) -> %s", cs.idx, stName(st))
			if !st.OK() && !r.plan.Faulty && cp.YEnd == 0 {
				simrt.Fail("C03-close-failed", "channel %d: SendAndClose(nil) on an open channel returned %s", cs.idx, stName(st))
			}
		}
		// drain what is pending (prefix rule applies), until the end status
		r.recvLoop(cs, 1, ch, r.bg, -1, 0, false)
	case EndClientFree:
		cs.endAction = "client Free"
	}
	if r.plan.Faulty && chConn.Closed().IsSet() && !ctxDoneSoon(chCtx) {
		simrt.Fail("C09-context-not-cancelled", "channel %d (client side): its connection is closed but the channel context is not cancelled", cs.idx)
	}
	gRace.wait("flow.client.join-race")
	simrt.Logf("ch%d client Free", cs.idx)
	ch.Free()
	cs.cliDone = true
}

// sendOne sends message k of direction dir; returns false when the sender should stop.
func (r *flowRun) sendOne(cs *chanState, dir, k int, send func([]byte) status.Status, what string) bool {
	ds := cs.d[dir]
	b := r.content(cs, dir, k)
	ds.sendTried[k] = true
	simrt.Logf("ch%d d%d %s #%d (%d bytes) ...", cs.idx, dir, what, k, len(b))
	st := send(b)
	ds.sendSt[k] = stName(st)
	ds.sendOK[k] = st.OK()
	ds.sendDone[k] = true
	simrt.Logf("ch%d d%d %s #%d -> %s", cs.idx, dir, what, k, stName(st))
	return st.OK()
}

// sendDeadline runs one Send under the side's own per-call deadline (ChanPlan.SendCtx), repeating it
// while it ends by that deadline; without SendCtx it is a plain call with the parent context.
func (r *flowRun) sendDeadline(cs *chanState, dir int, parent async.Context, send func(ctx async.Context) status.Status) status.Status {
	kind, us := cs.plan.SendCtx[dir], cs.plan.SendCtxUs[dir] // the sender of direction 0 is the client side
	if kind == 0 {
		return send(parent)
	}
	for {
		var own async.Context
		d := time.Duration(us) * time.Microsecond
		if kind == 1 {
			cc := async.NextContext(parent)
			hGo(fmt.Sprintf("ch%d-d%d-scancel", cs.idx, dir), func() {
				hSleep(d)
				cc.Cancel()
			})
			own = cc
		} else {
			own = async.NextTimeoutContext(parent, d)
		}
		st := send(own)
		expired := own.Done()
		own.Free()
		if !st.OK() && expired && !parent.Done() && (st.Code == status.CodeCancelled || st.Code == status.CodeTimeout) {
			r.sendCtxExpired++
			if us < 200_000 {
				us = us*2 + 1
			}
			continue
		}
		return st
	}
}

// noteConn remembers a connection seen through a channel (for fault ops that close it the way a user would).
func (r *flowRun) noteConn(side int, c mpx.Conn) {
	for _, x := range r.userConns[side] {
		if x == c {
			return
		}
	}
	r.userConns[side] = append(r.userConns[side], c)
}

// pollReceive is Receive written by a user of the polling interface: arm ReceiveWait, poll ReceiveAsync,
// wait for the armed channel or the context.
func pollReceive(ch mpx.Channel, ctx async.Context) ([]byte, status.Status) {
	for {
		wait := ch.ReceiveWait()
		data, ok, st := ch.ReceiveAsync(ctx)
		switch {
		case !st.OK():
			return nil, st
		case ok:
			return data, status.OK
		}
		if simrt.Select(0, ctx.Wait(), wait) == 0 {
			return nil, ctx.Status()
		}
	}
}

// recvLoop receives on ch until a non-OK status or until limit messages were
// received in this direction (limit<0: no limit). With drainOnCancel the loop
// keeps polling after a Cancelled status (a handler that waits on its own
// channel context) until the end status.
func (r *flowRun) recvLoop(cs *chanState, dir int, ch mpx.Channel, ctx async.Context, limit int, delayUs int, drainOnCancel bool) {
	ds := cs.d[dir]
	side := 1 - dir // the receiver of direction 0 is the server side
	ownKind, ownUs := cs.plan.RecvCtx[side], cs.plan.RecvCtxUs[side]
	if ownKind != 0 {
		drainOnCancel = false
	}
	for limit < 0 || ds.recvCount < limit {
		if delayUs > 0 {
			hSleep(time.Duration(delayUs) * time.Microsecond)
		}
		rctx := ctx
		var own async.Context
		switch ownKind {
		case 1:
			cc := async.NewContext()
			d := time.Duration(ownUs) * time.Microsecond
			hGo(fmt.Sprintf("ch%d-d%d-rcancel", cs.idx, dir), func() {
				hSleep(d)
				cc.Cancel()
			})
			own, rctx = cc, cc
		case 2:
			own = async.TimeoutContext(time.Duration(ownUs) * time.Microsecond)
			rctx = own
		}
		var data []byte
		var st status.Status
		if cs.plan.RecvPoll[side] {
			data, st = pollReceive(ch, rctx)
		} else {
			data, st = ch.Receive(rctx)
		}
		if own != nil {
			expired := own.Done()
			own.Free()
			if !st.OK() && expired && (st.Code == status.CodeCancelled || st.Code == status.CodeTimeout) {
				// the receiver's own deadline: nothing was received, try again with more patience
				r.recvCtxExpired++
				if ownUs < 200_000 {
					ownUs = ownUs*2 + 1
				}
				continue
			}
		}
		if st.OK() {
			simrt.Logf("ch%d d%d recv #%d (%d bytes)", cs.idx, dir, ds.recvCount, len(data))
			r.checkRecv(cs, dir, data)
			continue
		}
		if drainOnCancel && st.Code == status.CodeCancelled {
			// the channel context was cancelled by the close; pending messages are still readable
			// (a careful user of the polling interface: arm the wait, then poll, then wait)
			var wait <-chan struct{}
			for {
				data, ok, st2 := ch.ReceiveAsync(r.bg)
				if st2.OK() && ok {
					simrt.Logf("ch%d d%d recv(drain) #%d (%d bytes)", cs.idx, dir, ds.recvCount, len(data))
					r.checkRecv(cs, dir, data)
					continue
				}
				if st2.OK() && !ok {
					// nothing pending but not ended: wait for more
					if wait == nil {
						wait = ch.ReceiveWait()
						continue
					}
					simrt.Select(0, wait)
					wait = nil
					continue
				}
				st = st2
				break
			}
		}
		ds.ended = true
		ds.endSt = stName(st)
		simrt.Logf("ch%d d%d recv end: %s after %d", cs.idx, dir, stName(st), ds.recvCount)
		return
	}
}

// handler is the server side of every channel.
func (r *flowRun) handler(ctx mpx.Context, ch mpx.Channel) (ret status.Status) {
	hbAcquire()
	defer hbRelease()
	r.active++
	defer func() { r.active-- }()
	r.noteConn(1, ch.Conn())
	// first message identifies the channel
	first, st := ch.Receive(r.bg)
	if !st.OK() {
		simrt.Logf("handler: first Receive -> %s", stName(st))
		if !r.plan.Faulty && !r.hostile {
			simrt.Fail("C03-open-lost", "a channel was opened but its handler's first Receive returned %s instead of the opening payload", stName(st))
		}
		return status.OK
	}
	h, ok := parseHeader(first)
	if ok && h.nonce == r.plan.Nonce && h.ch == probeChan {
		// recovery probe: echo and leave
		r.probes++
		st := ch.SendAndClose(r.bg, first)
		simrt.Logf("probe handler echo -> %s", stName(st))
		return status.OK
	}
	if ok && h.nonce == r.plan.Nonce && h.ch >= rawChanBase && h.ch != probeChan && r.foreign != nil {
		return r.foreign(h, first, ctx, ch)
	}
	if r.hostile && (!ok || h.nonce != r.plan.Nonce || h.ch >= len(r.chans) || h.dir != 0) {
		// a scripted peer's damaged frame that still parsed: its data, its problem; drain and leave
		r.strayHandlers++
		for {
			if _, st := ch.Receive(r.bg); !st.OK() {
				return status.OK
			}
		}
	}
	if !ok || h.nonce != r.plan.Nonce || h.ch >= len(r.chans) || h.dir != 0 {
		r.strayHandlers++
		simrt.Fail("C03-corrupt", "handler received an opening payload (%d bytes) that matches no channel of this run: %x", len(first), first[:min(len(first), 24)])
		return status.OK
	}
	cs := r.chans[h.ch]
	cp := cs.plan
	cs.handlers++
	if cs.handlers > 1 {
		simrt.Fail("C20-handler-twice", "channel %d was handed to the handler %d times", cs.idx, cs.handlers)
	}
	simrt.Logf("ch%d handler start", cs.idx)
	r.checkRecv(cs, 0, first)
	defer func() { cs.srvDone = true }()
	if r.plan.Faulty {
		defer func() {
			if ctx.Conn().Disconnected().IsSet() && !ctxDoneSoon(ctx) {
				simrt.Fail("C09-context-not-cancelled", "channel %d (handler): its connection is closed but the handler's context is not cancelled", cs.idx)
			}
		}()
	}

	hctx := async.Context(r.bg)
	if cp.SrvChanCtx {
		hctx = ctx
	}
	isX := !cp.enderIsClient()
	var g group
	nData := len(cp.S2C)
	myEnd, limit := cp.sideEnd(false)
	sctx := hctx
	var scancel async.CancelContext
	if cp.CancelSend && myEnd >= 0 {
		scancel = async.NewContext()
		sctx = scancel
	}
	for s := 0; s < 2; s++ {
		if len(cs.d[1].bySender[s]) == 0 {
			continue
		}
		s := s
		g.goTask(fmt.Sprintf("ch%d-ssend%d", cs.idx, s), func() {
			for _, k := range cs.d[1].bySender[s] {
				if k >= nData {
					break
				}
				if !r.sendOne(cs, 1, k, func(b []byte) status.Status {
					return r.sendDeadline(cs, 1, sctx, func(ctx async.Context) status.Status { return ch.Send(ctx, b) })
				}, "Send") {
					return
				}
			}
		})
	}
	r.recvLoop(cs, 0, ch, hctx, limit, cp.RecvDelayUs[1], cp.SrvChanCtx)
	if scancel != nil {
		scancel.Cancel()
	}
	g.wait("flow.handler.join")
	if scancel != nil {
		scancel.Free()
	}

	switch myEnd {
	case -1:
		simrt.Logf("ch%d handler return (peer ended)", cs.idx)
		return status.OK
	case EndServerClose:
		cs.endAction = "handler SendAndClose"
		if cp.ClosePayload > 0 && isX {
			r.sendOne(cs, 1, nData, func(b []byte) status.Status {
				return r.sendDeadline(cs, 1, hctx, func(ctx async.Context) status.Status { return ch.SendAndClose(ctx, b) })
			}, "SendAndClose")
		} else {
			st := r.sendDeadline(cs, 1, hctx, func(ctx async.Context) status.Status { return ch.SendAndClose(ctx, nil) })
			simrt.Logf("ch%d handler SendAndClose(nil) -> %s", cs.idx, stName(st))
			if !st.OK() && !r.plan.Faulty && cp.YEnd == 0 {
				simrt.Fail("C03-close-failed", "channel %d: handler SendAndClose(nil) on an open channel returned %s", cs.idx, stName(st))
			}
		}
		return status.OK
	case EndHandlerErr:
		cs.endAction = "handler returns error"
		simrt.Logf("ch%d handler returns error", cs.idx)
		return status.Errorf("verif handler error ch%d", cs.idx)
	case EndHandlerPanic:
		cs.endAction = "handler panics"
		simrt.Logf("ch%d handler panics", cs.idx)
		panic(simrt.PanicSentinel{Tag: fmt.Sprintf("ch%d", cs.idx)})
	}
	cs.endAction = "handler returns OK"
	simrt.Logf("ch%d handler returns OK", cs.idx)
	return status.OK
}

// checkComplete is the end-of-run completeness oracle of fault-free runs.
func (r *flowRun) checkComplete(res *simrt.Result) (out []simrt.Violation) {
	add := func(rule, f string, a ...any) {
		out = append(out, simrt.Violation{Rule: rule, Detail: fmt.Sprintf(f, a...), Step: res.Steps})
	}
	for _, cs := range r.chans {
		cp := cs.plan
		if !cs.opened {
			continue
		}
		if !cs.cliDone || (cs.handlers > 0 && !cs.srvDone) {
			add("C03-unfinished", "channel %d (%s) did not finish: client done=%v handler started=%v done=%v", cs.idx, endNames[cp.End], cs.cliDone, cs.handlers > 0, cs.srvDone)
			continue
		}
		if cs.handlers != 1 {
			add("C20-handler-count", "channel %d was handed to the handler %d times", cs.idx, cs.handlers)
			continue
		}
		if cp.YEnd > 0 {
			continue // both sides end on their own: only the prefix rule (checked online) applies
		}
		// direction X -> Y must be complete
		dx := 1
		if cp.enderIsClient() {
			dx = 0
		}
		ds := cs.d[dx]
		sent, missing := 0, -1
		for k := range ds.msgs {
			if ds.sendOK[k] {
				sent++
				if !ds.got[k] && missing < 0 {
					missing = k
				}
			} else if ds.sendTried[k] && !cp.CancelSend && !(cp.CloseRace && ds.msgs[k].Sender&1 == 1) {
				// (a second sender racing the closing SendAndClose may lose: "closed" is then the right answer)
				add("C03-send-failed", "channel %d dir %d: Send #%d by the side that ends the channel returned %s on a healthy connection", cs.idx, dx, k, ds.sendSt[k])
			}
		}
		if !ds.ended {
			add("C03-no-end", "channel %d dir %d: the receiver never observed an end status", cs.idx, dx)
		}
		if missing >= 0 {
			add("C03-incomplete", "channel %d dir %d (%s): the receiver read until %q and got %d messages, but message #%d (and possibly more) of the %d whose Send returned OK never arrived",
				cs.idx, dx, cs.endAction, ds.endSt, ds.recvCount, missing, sent)
		}
		// the other direction: X received at least what it waited for (else it would have hung)
		dy := 1 - dx
		if cs.d[dy].recvCount < cp.EndRecv && !cp.OpenClose {
			add("C03-incomplete", "channel %d dir %d: the ending side stopped after %d of the %d messages it waited for", cs.idx, dy, cs.d[dy].recvCount, cp.EndRecv)
		}
	}
	return out
}

// ctxDoneSoon reports whether the context is cancelled within one simulated second.
func ctxDoneSoon(ctx async.Context) bool {
	if ctx.Done() {
		return true
	}
	return simrt.Select(0, ctx.Wait(), time.After(time.Second)) == 0
}
