#!/bin/bash
# verify_seeded.sh <src_out_dir> <name>: confirm a seeded change in a scratch worktree and store it in /verif/seeded/<name>
# (patch applies; existing tests pass with it; the demonstration passes without and fails with it).
set -u
src=$1; name=$2
export GOFLAGS=-mod=mod GOPROXY=off
wt=/tmp/wt/v_$name
git -C /repo worktree remove --force $wt >/dev/null 2>&1
git -C /repo worktree add --detach $wt HEAD -q || exit 2
pkg=$(python3 -c "import json;print(json.load(open('$src/meta.json'))['package_of_demo'])")
cd $wt
cp $src/zz_seeded_demo_test.go $pkg/
r_without=0; for i in 1 2 3; do go test -vet=off -count=1 -run 'Seeded|seeded|ZZ' ./$pkg/ >/tmp/wt/v_$name.without.$i.log 2>&1 || r_without=$((r_without+1)); done
rm $pkg/zz_seeded_demo_test.go
git apply $src/patch.diff || { echo "$name: patch does not apply"; exit 1; }
# (two client tests of the existing suite are timing-sensitive and fail now and then on a loaded machine, with or
# without any change: the suite counts as passing when one of up to three attempts passes)
r_suite=1; for i in 1 2 3; do go test -vet=off -count=1 ./mpx/ ./rpc/ ./internal/writer/ ./internal/decode/ ./internal/lang/parser/ >/tmp/wt/v_$name.suite.log 2>&1 && { r_suite=0; break; }; done
cp $src/zz_seeded_demo_test.go $pkg/
r_with=0; for i in 1 2 3; do go test -vet=off -count=1 -run 'Seeded|seeded|ZZ' ./$pkg/ >/tmp/wt/v_$name.with.$i.log 2>&1 || r_with=$((r_with+1)); done
echo "$name: demo fails without patch $r_without/3, suite exit with patch $r_suite, demo fails with patch $r_with/3"
if [ $r_without -eq 0 ] && [ $r_suite -eq 0 ] && [ $r_with -ge 2 ]; then
  mkdir -p /verif/seeded/$name
  cp $src/patch.diff $src/zz_seeded_demo_test.go /verif/seeded/$name/
  python3 - <<PY
import json
m=json.load(open('$src/meta.json'))
m['confirmed_by_me']={'demo_fails_without_patch':'$r_without/3','existing_suite_exit_with_patch':$r_suite,'demo_fails_with_patch':'$r_with/3',
  'ran':'bin/verify_seeded.sh in a scratch worktree of /repo HEAD: go test -run Seeded ./$pkg (3x without, 3x with patch); go test ./mpx ./rpc ./internal/writer ./internal/decode ./internal/lang/parser with patch'}
json.dump(m,open('/verif/seeded/$name/meta.json','w'),indent=1)
PY
  echo "$name: KEPT"
else
  echo "$name: NOT KEPT"
fi
cd /; git -C /repo worktree remove --force $wt
