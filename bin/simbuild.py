#!/usr/bin/env python3
"""Build step of the /verif simulator.

Produces /verif/.build/<key>/simcheck.test from
  * /repo's current working tree (mpx, rpc instrumented through -overlay, everything else as is),
  * a scratch copy of the pinned baselibrary module with the simulator runtime
    (simrt/simnet/simpool) added and its seams patched,
  * the harness in /verif/sim.
Nothing is written to /repo. Exit code 2 on any build problem.
"""
import fcntl, hashlib, json, os, re, shutil, subprocess, sys, glob, time

VERIF = os.path.dirname(os.path.dirname(os.path.abspath(__file__)))
REPO = os.environ.get("VERIF_REPO", "/repo")
BUILD = os.path.join(VERIF, ".build")
BL_VERSION = "v0.0.0-20250218120829-9ca66e53fd5f"
BL_MOD = "github.com/basecomplextech/baselibrary"
GO = "go1.26.8"


def env():
    e = dict(os.environ)
    e.update({"GOFLAGS": "-mod=mod", "GOPROXY": "off", "GOSUMDB": "off", "GOTOOLCHAIN": "local",
              "GONOSUMDB": "*", "GONOSUMCHECK": "1", "GOFLAGS_EXTRA": ""})
    return e


def die(msg):
    sys.stderr.write("simbuild: " + msg + "\n")
    sys.exit(2)


def run(cmd, cwd=None, quiet=False):
    p = subprocess.run(cmd, cwd=cwd, env=env(), stdout=subprocess.PIPE, stderr=subprocess.PIPE, text=True)
    if p.returncode != 0:
        die("command failed (%d): %s\n%s\n%s" % (p.returncode, " ".join(cmd), p.stdout[-4000:], p.stderr[-8000:]))
    return p.stdout


def gomodcache():
    return subprocess.run(["go", "env", "GOMODCACHE"], stdout=subprocess.PIPE, text=True,
                          env=dict(os.environ, GOFLAGS="-mod=mod")).stdout.strip() or "/root/go/pkg/mod"


def hash_files(paths):
    h = hashlib.sha256()
    for p in sorted(paths):
        h.update(p.encode())
        try:
            with open(p, "rb") as f:
                h.update(f.read())
        except OSError:
            h.update(b"<missing>")
    return h


def repo_sources():
    out = []
    for root, dirs, files in os.walk(REPO):
        dirs[:] = [d for d in dirs if d not in (".git",)]
        rel = os.path.relpath(root, REPO)
        if rel.startswith("internal/lang") or rel.startswith("cmd") or rel.startswith("internal/tests"):
            continue
        for f in files:
            if (f.endswith(".go") and not f.endswith("_test.go")) or f in ("go.mod", "go.sum"):
                out.append(os.path.join(root, f))
    return out


def verif_sources():
    out = []
    for d in ("simlib", "sim", "tools/instrument"):
        for root, dirs, files in os.walk(os.path.join(VERIF, d)):
            for f in files:
                if f.endswith(".go") or f in ("go.mod", "go.sum"):
                    out.append(os.path.join(root, f))
    out.append(os.path.join(VERIF, "bin", "simbuild.py"))
    return out


def build_key():
    h = hash_files(repo_sources() + verif_sources())
    return h.hexdigest()[:16]


# ---------------------------------------------------------------- baselibrary patch

def sub_once(path, old, new, count=1):
    with open(path) as f:
        s = f.read()
    if s.count(old) < 1:
        die("patch anchor not found in %s: %r" % (path, old[:60]))
    s = s.replace(old, new, count)
    with open(path, "w") as f:
        f.write(s)


SIMRT = BL_MOD + "/verifsim/simrt"
SIMPOOL = BL_MOD + "/verifsim/simpool"

POOLS_POOL_GO = '''package pools

import "%s"

// Pool is a generic pool (verif: deterministic free list instead of sync.Pool).
type Pool[T any] interface {
	Get() (T, bool)
	New() T
	Put(T)
}

func NewPool[T any]() Pool[T] { return newPool[T](nil) }

func NewPoolFunc[T any](new func() T) Pool[T] { return newPool(new) }

var _ Pool[any] = &pool[any]{}

type pool[T any] struct {
	p *simpool.Pool[T]
}

func newPool[T any](new func() T) Pool[T] {
	return &pool[T]{p: simpool.New(new)}
}

func (p *pool[T]) Get() (value T, ok bool) { return p.p.Get() }
func (p *pool[T]) New() T                  { return p.p.GetNew() }
func (p *pool[T]) Put(v T)                 { p.p.Put(v) }
''' % SIMPOOL

HEAP_POOL_GO = '''package heap

import (
	"math/bits"

	"%s"
)

const (
	minIndex = 10 // 1024
	maxIndex = 27 // 128MB
)

// blockPool2 wraps a deterministic free list of blocks (verif).
type blockPool2 struct {
	p *simpool.Pool[*Block]
}

func (b *blockPool2) Get() any {
	blk := b.p.GetNew()
	if simpool.Poison {
		// a released block carries 0xA5 until it is handed out again
		buf := blk.buf[:cap(blk.buf)]
		for i := range buf {
			buf[i] = 0
		}
	}
	return blk
}

func (b *blockPool2) Put(x any) {
	blk := x.(*Block)
	if simpool.Poison {
		buf := blk.buf[:cap(blk.buf)]
		for i := range buf {
			buf[i] = 0xA5
		}
	}
	b.p.Put(blk)
}

type pools [maxIndex + 1]*blockPool2

func newPools() (pools pools) {
	for j := minIndex; j <= maxIndex; j++ {
		size := 1 << j
		pools[j] = newPool(size)
	}
	return
}

func newPool(size int) *blockPool2 {
	return &blockPool2{p: simpool.New(func() *Block { return newBlock(size) })}
}

func blockPool(size int) int {
	if size == 0 {
		return 0
	}
	if isPowerOfTwo(size) {
		return poolIndex(size)
	}
	return poolIndex(size) + 1
}

func poolIndex(size int) int { return bits.Len(uint(size)) - 1 }

func isPowerOfTwo(size int) bool { return (size & (-size)) == size }
''' % SIMPOOL

ASYNC_POOL_GO = '''package async

import (
	"github.com/basecomplextech/baselibrary/async/internal/pool"
	"%s"
)

// Pool is a goroutine pool (verif: every task is a plain simulated goroutine;
// the real pool parks finalizer-driven workers on channels that outlive a run).
type Pool = pool.Pool

func NewPool() Pool { return spawnPool{} }

type spawnPool struct{}

func (spawnPool) Go(fn func())      { simrt.Go("pool.Go", fn) }
func (spawnPool) Run(r pool.Runner) { simrt.Go("pool.Run", r.Run) }
''' % SIMRT


BYTEQUEUE_VERIF_GO = '''package bytequeue

import "%s"

// verif: the queues created during a run are remembered in the simulator's registry (outside
// this race-instrumented package), for the stranded-reader probe.

func verifRegister(q *queue) {
	if simrt.Active() {
		simrt.RegAdd("bytequeue", q)
	}
}

// VerifStranded counts queues in the state "open, head block drained, unread
// data in a later block, no wake-up token pending, and the reader has armed
// ReadWait since its last Read": that reader sleeps although a message is readable.
func VerifStranded() int {
	n := 0
	for _, x := range simrt.RegList("bytequeue") {
		q := x.(*queue)
		if q.closed || q.head == nil || len(q.more) == 0 || len(q.readChan) != 0 || !q.verifArmed {
			continue
		}
		if q.head.readIndex < q.head.writeIndex {
			continue
		}
		for _, b := range q.more {
			if b.writeIndex > 0 {
				n++
				break
			}
		}
	}
	return n
}
''' % SIMRT


def prepare_baselibrary(dst, instrument_bin):
    src = os.path.join(gomodcache(), BL_MOD + "@" + BL_VERSION)
    if not os.path.isdir(src):
        die("pinned baselibrary %s not in module cache" % BL_VERSION)
    # the dependency must be the pinned one
    with open(os.path.join(REPO, "go.mod")) as f:
        if (BL_MOD + " " + BL_VERSION) not in f.read():
            die("/repo/go.mod does not pin baselibrary %s; the patch was made for that version" % BL_VERSION)
    shutil.copytree(src, dst)
    for root, dirs, files in os.walk(dst):
        os.chmod(root, 0o755)
        for f in files:
            os.chmod(os.path.join(root, f), 0o644)
    # simulator runtime
    for pkg in ("simrt", "simnet", "simpool"):
        d = os.path.join(dst, "verifsim", pkg)
        os.makedirs(d)
        for f in glob.glob(os.path.join(VERIF, "simlib", pkg, "*.go")):
            if f.endswith("_test.go"):
                continue
            shutil.copy(f, d)
    sub_once(os.path.join(dst, "go.mod"), "\ngo 1.24\n", "\ngo 1.25\n")
    # stubs
    with open(os.path.join(dst, "pools", "pool.go"), "w") as f:
        f.write(POOLS_POOL_GO)
    with open(os.path.join(dst, "alloc/internal/heap/pool.go"), "w") as f:
        f.write(HEAP_POOL_GO)
    sub_once(os.path.join(dst, "alloc/internal/heap/heap.go"), "block := pool.Get().(*Block)", "block := pool.Get().(*Block)")
    with open(os.path.join(dst, "async/pool.go"), "w") as f:
        f.write(ASYNC_POOL_GO)
    # random ids
    p = os.path.join(dst, "bin/bin128_random.go")
    sub_once(p, "\tp := random.read128()\n", "\tp := random.read128()\n\tif simrt.Active() {\n\t\tp = simrt.Random16()\n\t}\n")
    sub_once(p, 'import (\n', 'import (\n\t"%s"\n' % SIMRT)
    # panic recording
    p = os.path.join(dst, "status/error.go")
    sub_once(p, "func Recover(e any) Status {\n", "func Recover(e any) Status {\n\tsimrt.RecordPanic(e)\n")
    sub_once(p, "func RecoverStack(e any) (Status, []byte) {\n", "func RecoverStack(e any) (Status, []byte) {\n\tsimrt.RecordPanic(e)\n")
    with open(p) as f:
        s = f.read()
    s = re.sub(r'import \(\n', 'import (\n\t"%s"\n' % SIMRT, s, count=1)
    with open(p, "w") as f:
        f.write(s)
    # probe: queues whose reader can be parked although unread data exists (see DESIGN.md, finding F1)
    p = os.path.join(dst, "alloc/bytequeue/queue.go")
    sub_once(p, "func newQueue(heap *heap.Heap, cap int) *queue {\n\treturn &queue{", "func newQueue(heap *heap.Heap, cap int) *queue {\n\tq := &queue{")
    sub_once(p, "\t\twriteChan: make(chan struct{}, 1),\n\t}\n}", "\t\twriteChan: make(chan struct{}, 1),\n\t}\n\tverifRegister(q)\n\treturn q\n}")
    # ... and only while a reader has actually armed the wait after its last Read (a reader that is simply not
    # reading at the moment has nothing to be woken for)
    sub_once(p, "\tmore   []*block\n}", "\tmore   []*block\n\n\tverifArmed bool // verif: ReadWait handed out the live channel and Read has not been called since\n}")
    sub_once(p, "\tselect {\n\tcase <-q.readChan:\n\tdefault:\n\t}\n\n\treturn q.readChan\n}", "\tselect {\n\tcase <-q.readChan:\n\tdefault:\n\t}\n\n\tq.verifArmed = true\n\treturn q.readChan\n}")
    sub_once(p, "func (q *queue) Read() ([]byte, bool, status.Status) {\n\tq.rmu.Lock()\n\tdefer q.rmu.Unlock()\n", "func (q *queue) Read() ([]byte, bool, status.Status) {\n\tq.rmu.Lock()\n\tdefer q.rmu.Unlock()\n\tq.verifArmed = false\n")
    with open(os.path.join(dst, "alloc/bytequeue/zz_verif.go"), "w") as f:
        f.write(BYTEQUEUE_VERIF_GO)
    # seams of the blocking primitives the code under test reaches (no yields inside baselibrary)
    base = 100
    for pkg in ("async", "async/internal/context", "async/internal/flag", "async/internal/lock",
                "async/asyncmap", "alloc/bytequeue", "ref"):
        d = os.path.join(dst, pkg)
        run([instrument_bin, "-lenient", "-mode", "noyield", "-dir", d, "-out", d, "-base", str(base), "-label", "bl/" + pkg])
        base += 100


# ---------------------------------------------------------------- main build

def build(race=False, verbose=True):
    os.makedirs(BUILD, exist_ok=True)
    lock = open(os.path.join(BUILD, "lock"), "w")
    fcntl.flock(lock, fcntl.LOCK_EX)
    try:
        key = build_key()
        bdir = os.path.join(BUILD, key)
        name = "simcheck.race.test" if race else "simcheck.test"
        binp = os.path.join(bdir, name)
        if os.path.exists(binp):
            return binp
        t0 = time.time()
        # instrument tool
        tool_key = hash_files([p for p in verif_sources() if "/tools/instrument/" in p]).hexdigest()[:12]
        tool = os.path.join(BUILD, "bin", "instrument-" + tool_key)
        if not os.path.exists(tool):
            os.makedirs(os.path.dirname(tool), exist_ok=True)
            run([GO, "build", "-o", tool, "."], cwd=os.path.join(VERIF, "tools/instrument"))
        if not os.path.exists(os.path.join(bdir, "overlay.json")):
            if os.path.exists(bdir):
                shutil.rmtree(bdir)
            tmp = bdir
            os.makedirs(tmp)
            prepare_baselibrary(os.path.join(tmp, "baselibrary"), tool)
            # overlay for /repo/mpx and /repo/rpc
            replace = {}
            base = 1000
            for pkg in ("mpx", "rpc"):
                outd = os.path.join(tmp, "overlay", pkg)
                o = run([tool, "-mode", "full", "-dir", os.path.join(REPO, pkg), "-out", outd,
                         "-base", str(base), "-label", pkg])
                for line in o.splitlines():
                    a, b = line.split("\t")
                    replace[a] = b.replace(tmp, bdir)
                base += 3000
            # harness module
            hd = os.path.join(tmp, "harness")
            os.makedirs(hd)
            for f in glob.glob(os.path.join(VERIF, "sim", "*.go")):
                shutil.copy(f, hd)
            with open(os.path.join(hd, "go.mod"), "w") as f:
                f.write("module verif/simcheck\n\ngo 1.25\n\nrequire (\n\tgithub.com/basecomplextech/spec v0.0.0\n\t%s %s\n)\n\n"
                        "replace github.com/basecomplextech/spec => %s\n\nreplace %s => %s\n"
                        % (BL_MOD, BL_VERSION, REPO, BL_MOD, os.path.join(bdir, "baselibrary")))
            shutil.copy(os.path.join(REPO, "go.sum"), os.path.join(hd, "go.sum"))
            with open(os.path.join(tmp, "overlay.json"), "w") as f:
                json.dump({"Replace": replace}, f, indent=1)
        hd = os.path.join(bdir, "harness")
        cmd = [GO, "test", "-c", "-tags", "verif", "-overlay", os.path.join(bdir, "overlay.json"), "-o", binp]
        if race:
            # the simulator and the harness are compiled without race instrumentation: their accesses are
            # serialised by the baton, which is hidden from the detector on purpose (see simrt/race_on.go)
            cmd[3:3] = ["-race",
                        "-gcflags=github.com/basecomplextech/baselibrary/verifsim/...=-race=false",
                        "-gcflags=verif/simcheck=-race=false"]
        run(cmd + ["."], cwd=hd)
        if verbose:
            sys.stderr.write("simbuild: built %s in %.1fs\n" % (binp, time.time() - t0))
        prune(keep=key)
        return binp
    finally:
        fcntl.flock(lock, fcntl.LOCK_UN)


def prune(keep):
    ds = [d for d in glob.glob(os.path.join(BUILD, "*")) if os.path.isdir(d) and os.path.basename(d) not in ("bin", keep)]
    ds.sort(key=os.path.getmtime, reverse=True)
    for d in ds[12:]:  # other checks (other trees via VERIF_REPO, the race build) may be using theirs
        shutil.rmtree(d, ignore_errors=True)


if __name__ == "__main__":
    print(build(race="--race" in sys.argv))
